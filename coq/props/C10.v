(* C10 -- BCF typed encoding round-trips every value and carries the same content as VCF.
   Property theorems only.  Models: NV.Bcf.Ints (Int8/16/32 sentinels, width selection by scalar
   test and by min/max scan, byte images), NV.Bcf.Typed (descriptor byte, INFO Integer/Float/
   String values, per-sample FORMAT Integer/Float series, both directions), NV.Bcf.Genotype
   (GT series).  The models describe the code AFTER the fix: commits 01..08 of this property (missing INFO
   value, IDX in the header, GT padding, phase of missing alleles, all-missing Integer vector
   series, lazy one-element vectors, checked allele arithmetic, end-of-vector/reserved floats),
   including its error results, and are compared with the real writer/reader byte for byte by
   bin/check C10. *)
From Coq Require Import ZArith NArith List Bool.
From NV Require Import Bcf.Ints Bcf.IntsProofs Bcf.Typed Bcf.TypedProofs Bcf.Genotype Bcf.GenotypeProofs.
Import ListNotations.
Open Scope Z_scope.

(* Sentinel classification, all three widths, the whole range: Missing = MIN, EndOfVector = MIN+1,
   Reserved = MIN+2..MIN+7, Value from MIN+8; and converting back gives the same raw integer. *)
Theorem bcf_int_classify_spec : forall w n, wmin w <= n <= wmax w ->
  (n = wmin w /\ classify w n = IMissing) \/
  (n = wmin w + 1 /\ classify w n = IEov) \/
  (wmin w + 2 <= n <= wmin w + 7 /\ classify w n = IReserved n) \/
  (wmin w + 8 <= n /\ classify w n = IValue n).
Proof. exact classify_spec. Qed.
Print Assumptions bcf_int_classify_spec.

Theorem bcf_int_raw_of_classify : forall w n, raw_of w (classify w n) = n.
Proof. exact raw_of_classify. Qed.
Print Assumptions bcf_int_raw_of_classify.

(* the same, by exhaustive evaluation of the Int8 (256) and Int16 (65536) domains *)
Theorem bcf_int8_classify_exhaustive : forall n, -128 <= n <= 127 -> check_classify W8 n = true.
Proof. exact int8_classify_all. Qed.
Print Assumptions bcf_int8_classify_exhaustive.

Theorem bcf_int16_classify_exhaustive : forall n, -32768 <= n <= 32767 -> check_classify W16 n = true.
Proof. exact int16_classify_all. Qed.
Print Assumptions bcf_int16_classify_exhaustive.

(* For every i32 n >= -2^31+8 the INFO scalar writer picks a width whose value range (sentinels
   excluded) holds n, n is a Value there (never a sentinel), and reading the bytes back gives n;
   below -2^31+8 the writer returns Err(InvalidInput). *)
Theorem bcf_int_width_sound : forall n, -2147483640 <= n <= 2147483647 ->
  exists w bs,
    select_scalar n = Some w /\
    min_value w <= n <= wmax w /\
    classify w n = IValue n /\
    enc_info_int n = Ok bs /\
    dec_info_int bs = ROk (RInt n).
Proof. exact int_width_sound. Qed.
Print Assumptions bcf_int_width_sound.

Theorem bcf_int_below_min_is_error : forall n, n < -2147483640 -> enc_info_int n = ErrInput.
Proof. exact int_below_min_is_error. Qed.
Print Assumptions bcf_int_below_min_is_error.

(* the chosen width is the narrowest that can hold n *)
Theorem bcf_int_width_minimal : forall n w w', select_scalar n = Some w ->
  min_value w' <= n <= wmax w' -> (wbytes w <= wbytes w')%nat.
Proof. exact select_scalar_minimal. Qed.
Print Assumptions bcf_int_width_minimal.

(* Descriptor byte with overflow length: every type code, every length 0..2^31-1, any suffix. *)
Theorem bcf_descriptor_roundtrip : forall code len rest,
  valid_code code = true -> 0 <= len <= 2147483647 ->
  exists bs, enc_type code len = Ok bs /\ read_type (bs ++ rest) = Some (code, len, rest).
Proof. exact descriptor_roundtrip. Qed.
Print Assumptions bcf_descriptor_roundtrip.

Theorem bcf_descriptor_too_long_is_error : forall code len, 2147483647 < len -> enc_type code len = ErrInput.
Proof. exact enc_type_err. Qed.
Print Assumptions bcf_descriptor_too_long_is_error.

(* Per-sample Integer vectors (FORMAT, Number != 1): any number of samples, missing samples,
   missing entries, unequal lengths (padded with EndOfVector to the longest), values anywhere in
   -2^31+8..2^31-1, through the writer's own min/max scan and length computation.  Read back:
   the same vectors with their own lengths ([norm]: a vector that is exactly one missing entry
   is the VCF field `.`, i.e. the missing value).  A missing sample occupies one entry, so
   max_len >= 1 unless the series has no samples or only vectors without entries (which have no
   VCF text). *)
Theorem bcf_int_vector_roundtrip : forall vals,
  entries_within (-2147483640) 2147483647 vals ->
  (1 <= max_len vals)%nat -> Z.of_nat (max_len vals) <= 2147483647 ->
  exists bs, enc_fmt_ints vals = Ok bs /\
             dec_fmt_ints (length vals) bs = ROk (BVectors (map norm vals)).
Proof. exact fmt_int_vector_roundtrip. Qed.
Print Assumptions bcf_int_vector_roundtrip.

Theorem bcf_int_vector_below_min_is_error : forall vals vs n,
  In (Some vs) vals -> In (Some n) vs -> n < -2147483640 -> enc_fmt_ints vals = ErrInput.
Proof. exact fmt_int_vector_below_min_is_error. Qed.
Print Assumptions bcf_int_vector_below_min_is_error.

(* the decoder side for ANY fitting width and ANY common length (not only the writer's choice) *)
Theorem bcf_int_series_roundtrip_any_width : forall w m vals rest,
  (forall s, In s vals -> sample_fits w s) ->
  (forall s, In s vals -> (sample_len s <= m)%nat) ->
  dec_samples w (length vals) m
    (flat_map (fun s => flat_map (enc_int w) (sample_raws w m s)) vals ++ rest)
  = ROk (map norm vals).
Proof. exact series_roundtrip. Qed.
Print Assumptions bcf_int_series_roundtrip_any_width.

(* `GT:AD 0/1:. 0/0:.`: a series in which every sample is missing round-trips (it was written
   with a zero-length descriptor before fix 05) *)
Theorem bcf_int_vector_all_missing_roundtrip : forall vals,
  vals <> [] -> (forall s, In s vals -> s = None) ->
  exists bs, enc_fmt_ints vals = Ok bs /\ dec_fmt_ints (length vals) bs = ROk (BVectors vals).
Proof. exact all_missing_series_roundtrip. Qed.
Print Assumptions bcf_int_vector_all_missing_roundtrip.

(* an INFO field whose value is missing (`DP=.`) is written (it panicked before fix 01) and is
   read back as missing whatever the field's type *)
Theorem bcf_info_missing_roundtrip :
  exists bs, enc_info_missing = Ok bs /\
    dec_info_int bs = ROk RNone /\ dec_info_ints bs = ROk RNone /\
    dec_info_float bs = ROk RNone /\ dec_info_floats bs = ROk RNone /\
    dec_info_string bs = ROk None.
Proof. exact info_missing_roundtrip. Qed.
Print Assumptions bcf_info_missing_roundtrip.

(* Floats: every 32-bit pattern outside the reserved NaNs 0x7f800001..0x7f800007 is read back
   bit for bit (the canonical NaN 0x7fc00000 and all other NaN payloads included). *)
Theorem bcf_float_roundtrip : forall b, 0 <= b < 4294967296 -> ~ reserved_nan b ->
  exists bs, enc_info_float b = Ok bs /\ dec_info_float bs = ROk (RFloat b).
Proof. exact float_roundtrip. Qed.
Print Assumptions bcf_float_roundtrip.

Theorem bcf_float_missing_pattern_refuted :
  exists b bs, enc_info_float b = Ok bs /\ dec_info_float bs = ROk RNone.
Proof. exact float_missing_pattern_refuted. Qed.
Print Assumptions bcf_float_missing_pattern_refuted.

(* end-of-vector / reserved float patterns are errors in the vector and per-sample writers *)
Theorem bcf_float_eov_or_reserved_is_error : forall b, eov_or_reserved b ->
  enc_info_floats [Some b] = ErrInput /\ enc_fmt_float [Some b] = ErrInput /\
  enc_fmt_floats [Some [Some b]] = ErrInput.
Proof. exact float_eov_or_reserved_is_error. Qed.
Print Assumptions bcf_float_eov_or_reserved_is_error.

(* Genotypes: any number of samples, ANY mix of ploidies (padded with EndOfVector after the
   alleles), missing alleles with either phasing, allele indices 0..62, through the writer's own
   length computation: read back as the same alleles and phasing.  Premise max_len >= 1: a series
   made only of genotypes without alleles has no VCF text. *)
Theorem bcf_genotype_roundtrip : forall gs,
  (forall g a, In g gs -> In a g -> allele_valid a) ->
  (1 <= gt_max_len (map (map code) gs))%nat ->
  Z.of_nat (gt_max_len (map (map code) gs)) <= 2147483647 ->
  exists bs, enc_gt gs = Ok bs /\ dec_gt (length gs) bs = ROk (map Some gs).
Proof. exact genotype_roundtrip. Qed.
Print Assumptions bcf_genotype_roundtrip.

(* the decoder side for any common length *)
Theorem bcf_genotype_series_roundtrip_any_length : forall m gs rest,
  (forall g a, In g gs -> In a g -> allele_valid a) ->
  (forall g, In g gs -> (length g <= m)%nat) ->
  dec_gt_samples (length gs) m (concat (map (sbytes m) gs) ++ rest) = ROk (map Some gs).
Proof. exact gt_series_roundtrip. Qed.
Print Assumptions bcf_genotype_series_roundtrip_any_length.

(* allele indices from 63 on are errors (127 panicked before fix 07) *)
Theorem bcf_genotype_allele_too_large_is_error : forall p ph, 63 <= p ->
  enc_gt [[(Some p, ph)]] = ErrInput \/ enc_gt [[(Some p, ph)]] = ErrData.
Proof. exact genotype_allele_too_large_is_error. Qed.
Print Assumptions bcf_genotype_allele_too_large_is_error.

(* c10_partial: the composition for the modelled kinds (partial: Character/String series, string
   maps and record framing are not modelled).  What C10 states in full -- every record
   the writer accepts is read back as the same record, string-map indices included -- is covered
   beyond these kinds by the implementation-side oracle only. *)
Theorem c10_partial :
  (forall n, -2147483640 <= n <= 2147483647 ->
     exists bs, enc_info_int n = Ok bs /\ dec_info_int bs = ROk (RInt n)) /\
  (forall n, n < -2147483640 -> enc_info_int n = ErrInput) /\
  (forall vals, entries_within (-2147483640) 2147483647 vals ->
     (1 <= max_len vals)%nat -> Z.of_nat (max_len vals) <= 2147483647 ->
     exists bs, enc_fmt_ints vals = Ok bs /\
                dec_fmt_ints (length vals) bs = ROk (BVectors (map norm vals))) /\
  (forall b, 0 <= b < 4294967296 -> ~ reserved_nan b ->
     exists bs, enc_info_float b = Ok bs /\ dec_info_float bs = ROk (RFloat b)) /\
  (forall code len rest, valid_code code = true -> 0 <= len <= 2147483647 ->
     exists bs, enc_type code len = Ok bs /\ read_type (bs ++ rest) = Some (code, len, rest)) /\
  (forall gs, (forall g a, In g gs -> In a g -> allele_valid a) ->
     (1 <= gt_max_len (map (map code) gs))%nat ->
     Z.of_nat (gt_max_len (map (map code) gs)) <= 2147483647 ->
     exists bs, enc_gt gs = Ok bs /\ dec_gt (length gs) bs = ROk (map Some gs)).
Proof.
  split; [|split; [exact int_below_min_is_error|split; [exact fmt_int_vector_roundtrip|
    split; [exact float_roundtrip|split; [exact descriptor_roundtrip|exact genotype_roundtrip]]]]].
  intros n H. destruct (int_width_sound n H) as [w [bs [_ [_ [_ [E D]]]]]]. exists bs. split; assumption.
Qed.
Print Assumptions c10_partial.

(* non-vacuity *)
Example c10_examples :
  enc_info_int (-121) = Ok [18%N; 135%N; 255%N] /\            (* Int16: 0x12 0x87 0xff *)
  enc_info_int (-120) = Ok [17%N; 136%N] /\                   (* Int8:  0x11 0x88 *)
  enc_info_int 128 = Ok [18%N; 128%N; 0%N] /\
  enc_info_int (-2147483641) = ErrInput /\
  enc_info_ints [Some (-120); None; Some 127] = Ok [49%N; 136%N; 128%N; 127%N] /\
  dec_info_ints [49%N; 136%N; 128%N; 127%N] = ROk (RInts [Some (-120); None; Some 127]) /\
  max_len [Some [Some 1; None]; None; Some [Some 70000]] = 2%nat.
Proof. vm_compute. repeat split; reflexivity. Qed.

Example c10_series_example :
  exists bs, enc_fmt_ints [Some [Some 1; None; Some (-121)]; None; Some [Some 300]] = Ok bs /\
             dec_fmt_ints 3 bs = ROk (BVectors [Some [Some 1; None; Some (-121)]; None; Some [Some 300]]).
Proof. exact series_example. Qed.
