(* C10 -- BCF typed encoding round-trips every value and carries the same content as VCF.
   Property theorems only.  Models: NV.Bcf.Ints (Int8/16/32 sentinels, width selection by scalar
   test and by min/max scan, byte images), NV.Bcf.Typed (descriptor byte, INFO Integer/Float/
   String values, per-sample FORMAT Integer/Float series, both directions), NV.Bcf.Genotype
   (GT series), NV.Bcf.Strings (Character/String values and series), NV.Bcf.StringMap (the
   dictionaries built from header lines), NV.Bcf.Record (record framing and the site head).
   The models describe the code at the repaired tree (all fix: commits of this property and of the
   BCF decoder hardening: missing INFO value, IDX in the header, GT padding, phase of missing
   alleles, all-missing series, lazy one-element vectors, checked allele arithmetic,
   end-of-vector/reserved floats, decoder todo!()/unwrap panics turned into errors, IDX conflicts,
   nested overflow lengths), including its error results, and are compared with the real writer/reader byte for byte by
   bin/check C10. *)
From Coq Require Import ZArith NArith List Bool.
From NV Require Import Bcf.Ints Bcf.IntsProofs Bcf.Typed Bcf.TypedProofs Bcf.VectorsProofs Bcf.Genotype Bcf.GenotypeProofs
  Bcf.Strings Bcf.StringsProofs Bcf.StringMap Bcf.StringMapProofs Bcf.Record Bcf.RecordProofs Bcf.BlockProofs Bcf.RecordTyped Bcf.NeverPanics.
Import ListNotations.
Open Scope Z_scope.

(* Sentinel classification, all three widths, the whole range: Missing = MIN, EndOfVector = MIN+1,
   Reserved = MIN+2..MIN+7, Value from MIN+8; and converting back gives the same raw integer. *)
Theorem bcf_int_classify_spec : forall w n, wmin w <= n <= wmax w ->
  (n = wmin w /\ classify w n = IMissing) \/
  (n = wmin w + 1 /\ classify w n = IEov) \/
  (wmin w + 2 <= n <= wmin w + 7 /\ classify w n = IReserved n) \/
  (wmin w + 8 <= n /\ classify w n = IValue n).
Proof. exact classify_spec. Qed.
Print Assumptions bcf_int_classify_spec.

Theorem bcf_int_raw_of_classify : forall w n, raw_of w (classify w n) = n.
Proof. exact raw_of_classify. Qed.
Print Assumptions bcf_int_raw_of_classify.

(* the same, by exhaustive evaluation of the Int8 (256) and Int16 (65536) domains *)
Theorem bcf_int8_classify_exhaustive : forall n, -128 <= n <= 127 -> check_classify W8 n = true.
Proof. exact int8_classify_all. Qed.
Print Assumptions bcf_int8_classify_exhaustive.

Theorem bcf_int16_classify_exhaustive : forall n, -32768 <= n <= 32767 -> check_classify W16 n = true.
Proof. exact int16_classify_all. Qed.
Print Assumptions bcf_int16_classify_exhaustive.

(* For every i32 n >= -2^31+8 the INFO scalar writer picks a width whose value range (sentinels
   excluded) holds n, n is a Value there (never a sentinel), and reading the bytes back gives n;
   below -2^31+8 the writer returns Err(InvalidInput). *)
Theorem bcf_int_width_sound : forall n, -2147483640 <= n <= 2147483647 ->
  exists w bs,
    select_scalar n = Some w /\
    min_value w <= n <= wmax w /\
    classify w n = IValue n /\
    enc_info_int n = Ok bs /\
    dec_info_int bs = ROk (RInt n).
Proof. exact int_width_sound. Qed.
Print Assumptions bcf_int_width_sound.

Theorem bcf_int_below_min_is_error : forall n, n < -2147483640 -> enc_info_int n = ErrInput.
Proof. exact int_below_min_is_error. Qed.
Print Assumptions bcf_int_below_min_is_error.

(* the chosen width is the narrowest that can hold n *)
Theorem bcf_int_width_minimal : forall n w w', select_scalar n = Some w ->
  min_value w' <= n <= wmax w' -> (wbytes w <= wbytes w')%nat.
Proof. exact select_scalar_minimal. Qed.
Print Assumptions bcf_int_width_minimal.

(* Descriptor byte with overflow length: every type code, every length 0..2^31-1, any suffix. *)
Theorem bcf_descriptor_roundtrip : forall code len rest,
  valid_code code = true -> 0 <= len <= 2147483647 ->
  exists bs, enc_type code len = Ok bs /\ read_type (bs ++ rest) = Some (code, len, rest).
Proof. exact descriptor_roundtrip. Qed.
Print Assumptions bcf_descriptor_roundtrip.

Theorem bcf_descriptor_too_long_is_error : forall code len, 2147483647 < len -> enc_type code len = ErrInput.
Proof. exact enc_type_err. Qed.
Print Assumptions bcf_descriptor_too_long_is_error.

(* Per-sample Integer vectors (FORMAT, Number != 1): any number of samples, missing samples,
   missing entries, unequal lengths (padded with EndOfVector to the longest), values anywhere in
   -2^31+8..2^31-1, through the writer's own min/max scan and length computation.  Read back:
   the same vectors with their own lengths ([norm]: a vector that is exactly one missing entry
   is the VCF field `.`, i.e. the missing value).  A missing sample occupies one entry, so
   max_len >= 1 unless the series has no samples or only vectors without entries (which have no
   VCF text). *)
Theorem bcf_int_vector_roundtrip : forall vals,
  entries_within (-2147483640) 2147483647 vals ->
  (1 <= max_len vals)%nat -> Z.of_nat (max_len vals) <= 2147483647 ->
  exists bs, enc_fmt_ints vals = Ok bs /\
             dec_fmt_ints (length vals) bs = ROk (BVectors (map norm vals)).
Proof. exact fmt_int_vector_roundtrip. Qed.
Print Assumptions bcf_int_vector_roundtrip.

Theorem bcf_int_vector_below_min_is_error : forall vals vs n,
  In (Some vs) vals -> In (Some n) vs -> n < -2147483640 -> enc_fmt_ints vals = ErrInput.
Proof. exact fmt_int_vector_below_min_is_error. Qed.
Print Assumptions bcf_int_vector_below_min_is_error.

(* the decoder side for ANY fitting width and ANY common length (not only the writer's choice) *)
Theorem bcf_int_series_roundtrip_any_width : forall w m vals rest,
  (forall s, In s vals -> sample_fits w s) ->
  (forall s, In s vals -> (sample_len s <= m)%nat) ->
  dec_samples w (length vals) m
    (flat_map (fun s => flat_map (enc_int w) (sample_raws w m s)) vals ++ rest)
  = ROk (map norm vals).
Proof. exact series_roundtrip. Qed.
Print Assumptions bcf_int_series_roundtrip_any_width.

(* `GT:AD 0/1:. 0/0:.`: a series in which every sample is missing round-trips (it was written
   with a zero-length descriptor before fix 05) *)
Theorem bcf_int_vector_all_missing_roundtrip : forall vals,
  vals <> [] -> (forall s, In s vals -> s = None) ->
  exists bs, enc_fmt_ints vals = Ok bs /\ dec_fmt_ints (length vals) bs = ROk (BVectors vals).
Proof. exact all_missing_series_roundtrip. Qed.
Print Assumptions bcf_int_vector_all_missing_roundtrip.

(* an INFO field whose value is missing (`DP=.`) is written (it panicked before fix 01) and is
   read back as missing whatever the field's type *)
Theorem bcf_info_missing_roundtrip :
  exists bs, enc_info_missing = Ok bs /\
    dec_info_int bs = ROk RNone /\ dec_info_ints bs = ROk RNone /\
    dec_info_float bs = ROk RNone /\ dec_info_floats bs = ROk RNone /\
    dec_info_string bs = ROk None.
Proof. exact info_missing_roundtrip. Qed.
Print Assumptions bcf_info_missing_roundtrip.

(* Floats: every 32-bit pattern outside the reserved NaNs 0x7f800001..0x7f800007 is read back
   bit for bit (the canonical NaN 0x7fc00000 and all other NaN payloads included). *)
Theorem bcf_float_roundtrip : forall b, 0 <= b < 4294967296 -> ~ reserved_nan b ->
  exists bs, enc_info_float b = Ok bs /\ dec_info_float bs = ROk (RFloat b).
Proof. exact float_roundtrip. Qed.
Print Assumptions bcf_float_roundtrip.

Theorem bcf_float_missing_pattern_refuted :
  exists b bs, enc_info_float b = Ok bs /\ dec_info_float bs = ROk RNone.
Proof. exact float_missing_pattern_refuted. Qed.
Print Assumptions bcf_float_missing_pattern_refuted.

(* end-of-vector / reserved float patterns are errors in the vector and per-sample writers *)
Theorem bcf_float_eov_or_reserved_is_error : forall b, eov_or_reserved b ->
  enc_info_floats [Some b] = ErrInput /\ enc_fmt_float [Some b] = ErrInput /\
  enc_fmt_floats [Some [Some b]] = ErrInput.
Proof. exact float_eov_or_reserved_is_error. Qed.
Print Assumptions bcf_float_eov_or_reserved_is_error.

(* Genotypes: any number of samples, ANY mix of ploidies (padded with EndOfVector after the
   alleles), missing alleles with either phasing, allele indices 0..62, through the writer's own
   length computation: read back as the same alleles and phasing.  Premise max_len >= 1: a series
   made only of genotypes without alleles has no VCF text. *)
Theorem bcf_genotype_roundtrip : forall gs,
  (forall g a, In g gs -> In a g -> allele_valid a) ->
  (1 <= gt_max_len (map (map code) gs))%nat ->
  Z.of_nat (gt_max_len (map (map code) gs)) <= 2147483647 ->
  exists bs, enc_gt gs = Ok bs /\ dec_gt (length gs) bs = ROk (map Some gs).
Proof. exact genotype_roundtrip. Qed.
Print Assumptions bcf_genotype_roundtrip.

(* the decoder side for any common length *)
Theorem bcf_genotype_series_roundtrip_any_length : forall m gs rest,
  (forall g a, In g gs -> In a g -> allele_valid a) ->
  (forall g, In g gs -> (length g <= m)%nat) ->
  dec_gt_samples (length gs) m (concat (map (sbytes m) gs) ++ rest) = ROk (map Some gs).
Proof. exact gt_series_roundtrip. Qed.
Print Assumptions bcf_genotype_series_roundtrip_any_length.

(* allele indices from 63 on are errors (127 panicked before fix 07) *)
Theorem bcf_genotype_allele_too_large_is_error : forall p ph, 63 <= p ->
  enc_gt [[(Some p, ph)]] = ErrInput \/ enc_gt [[(Some p, ph)]] = ErrData.
Proof. exact genotype_allele_too_large_is_error. Qed.
Print Assumptions bcf_genotype_allele_too_large_is_error.

(* ---------------------------------------------------------------- vectors (deepening round) *)
(* INFO Integer vectors (Number != 1): any length 1..2^31-1, missing entries, values anywhere in
   -2^31+8..2^31-1, through the writer's own min/max scan (a missing entry counts as 0) and width
   choice: read back as the same vector ([norm_info_ints]: the vector that is exactly one missing
   entry is the missing value, VCF `X=.`).  A one-element vector has the bytes of a scalar. *)
Theorem bcf_info_int_vector_roundtrip : forall vs,
  vs <> [] ->
  (forall n, In (Some n) vs -> -2147483640 <= n <= 2147483647) ->
  Z.of_nat (length vs) <= 2147483647 ->
  exists bs, enc_info_ints vs = Ok bs /\ dec_info_ints bs = ROk (norm_info_ints vs).
Proof. exact info_int_vector_roundtrip. Qed.
Print Assumptions bcf_info_int_vector_roundtrip.

Theorem bcf_info_int_vector_below_min_is_error : forall vs n,
  In (Some n) vs -> n < -2147483640 -> enc_info_ints vs = ErrInput.
Proof. exact info_int_vector_below_min_is_error. Qed.
Print Assumptions bcf_info_int_vector_below_min_is_error.

(* INFO Float vectors: every entry pattern outside the reserved NaNs, missing entries *)
Theorem bcf_info_float_vector_roundtrip : forall vs,
  vs <> [] -> floats_ok vs -> Z.of_nat (length vs) <= 2147483647 ->
  exists bs, enc_info_floats vs = Ok bs /\ dec_info_floats bs = ROk (norm_info_floats vs).
Proof. exact info_float_vector_roundtrip. Qed.
Print Assumptions bcf_info_float_vector_roundtrip.

Theorem bcf_info_float_vector_missing_pattern_refuted :
  exists vs bs, enc_info_floats vs = Ok bs /\ dec_info_floats bs <> ROk (norm_info_floats vs).
Proof. exact info_float_vector_missing_pattern_refuted. Qed.
Print Assumptions bcf_info_float_vector_missing_pattern_refuted.

(* FORMAT Float, Number=1: one float per sample, missing samples included *)
Theorem bcf_float_scalar_series_roundtrip : forall vals, floats_ok vals ->
  exists bs, enc_fmt_float vals = Ok bs /\ dec_fmt_float (length vals) bs = ROk (BScalars vals).
Proof. exact fmt_float_scalar_roundtrip. Qed.
Print Assumptions bcf_float_scalar_series_roundtrip.

(* FORMAT Float vectors: any number of samples, missing samples, missing entries, unequal lengths
   (padded with the end-of-vector pattern), through the writer's own length computation.  The
   writer needs one present vector (otherwise Err(InvalidInput), see below) and takes the common
   length from the present vectors only; a missing sample occupies one entry, hence fmax_len >= 1. *)
Theorem bcf_float_series_roundtrip : forall vals,
  fentries_ok vals -> has_vector vals = true ->
  (1 <= fmax_len vals)%nat -> Z.of_nat (fmax_len vals) <= 2147483647 ->
  exists bs, enc_fmt_floats vals = Ok bs /\
             dec_fmt_floats (length vals) bs = ROk (BVectors (map norm vals)).
Proof. exact fmt_float_series_roundtrip. Qed.
Print Assumptions bcf_float_series_roundtrip.

Theorem bcf_float_series_any_length : forall m vals rest,
  (forall s, In s vals -> fsample_ok s) ->
  (forall s, In s vals -> (sample_len s <= m)%nat) ->
  dec_fsamples (length vals) m
    (flat_map (flat_map enc_f32) (map (fsample_raw_list m) vals) ++ rest)
  = ROk (map norm vals).
Proof. exact fseries_roundtrip. Qed.
Print Assumptions bcf_float_series_any_length.

Theorem bcf_float_series_all_missing_is_error : forall vals,
  has_vector vals = false -> enc_fmt_floats vals = ErrInput.
Proof. exact has_vector_false. Qed.
Print Assumptions bcf_float_series_all_missing_is_error.

(* ---------------------------------------------------------------- Character / String *)
(* The typed string: every non-empty well-formed UTF-8 string of up to 2^31-1 bytes (the reader
   rejects anything else: Typed.utf8_valid mirrors str::from_utf8); the empty string is written
   as String(0), which IS the missing value (class string-special-chars). *)
Theorem bcf_info_string_roundtrip : forall s, s <> [] -> utf8_valid s = true ->
  Z.of_nat (length s) <= 2147483647 ->
  exists bs, enc_info_string s = Ok bs /\ dec_info_str bs = ROk (SStr s).
Proof. exact info_str_roundtrip. Qed.
Print Assumptions bcf_info_string_roundtrip.

Theorem bcf_info_string_empty_refuted :
  exists s bs, enc_info_string s = Ok bs /\ dec_info_str bs = ROk SNone.
Proof. exact info_string_empty_refuted. Qed.
Print Assumptions bcf_info_string_empty_refuted.

Theorem bcf_info_char_roundtrip : forall c, (c < 128)%N ->
  exists bs, enc_info_char c = Ok bs /\ dec_info_char bs = ROk (SChar c).
Proof. exact info_char_roundtrip. Qed.
Print Assumptions bcf_info_char_roundtrip.

(* vectors are stored comma-joined with '.' for a missing element: they round-trip when no
   element is '.' / ',' (characters), resp. empty, "." or holding a ',' (strings) *)
Theorem bcf_info_char_vector_roundtrip : forall vs, vs <> [] -> chars_ok vs ->
  utf8_valid (join comma (map char_piece vs)) = true ->
  Z.of_nat (length (join comma (map char_piece vs))) <= 2147483647 ->
  exists bs, enc_info_chars vs = Ok bs /\ dec_info_chars bs = ROk (SChars vs).
Proof. exact info_chars_roundtrip. Qed.
Print Assumptions bcf_info_char_vector_roundtrip.

Theorem bcf_info_string_vector_roundtrip : forall vs, vs <> [] -> strs_ok vs ->
  utf8_valid (join comma (map str_piece vs)) = true ->
  Z.of_nat (length (join comma (map str_piece vs))) <= 2147483647 ->
  exists bs, enc_info_strs vs = Ok bs /\ dec_info_strs bs = ROk (SStrs vs).
Proof. exact info_strs_roundtrip. Qed.
Print Assumptions bcf_info_string_vector_roundtrip.

(* the class string-special-chars: [a,b] comes back as two elements, "." as a missing element,
   [""] as the missing value; the character ',' disappears from a character vector *)
Theorem bcf_info_string_vector_special_refuted :
  (exists vs bs, enc_info_strs vs = Ok bs /\ dec_info_strs bs = ROk (SStrs [Some [97%N]; Some [98%N]])
                 /\ vs = [Some [97%N; comma; 98%N]]) /\
  (exists vs bs, enc_info_strs vs = Ok bs /\ dec_info_strs bs = ROk (SStrs [None; Some [97%N]])
                 /\ vs = [Some [dot]; Some [97%N]]) /\
  (exists vs bs, enc_info_strs vs = Ok bs /\ dec_info_strs bs = ROk SNone /\ vs = [Some []]).
Proof. exact info_strs_special_refuted. Qed.
Print Assumptions bcf_info_string_vector_special_refuted.

Theorem bcf_info_char_vector_special_refuted :
  exists vs bs, enc_info_chars vs = Ok bs /\ dec_info_chars bs = ROk (SChars [Some 97%N; Some 98%N])
                /\ vs = [Some 97%N; Some comma; Some 98%N].
Proof. exact info_chars_special_refuted. Qed.
Print Assumptions bcf_info_char_vector_special_refuted.

(* per-sample series: one descriptor String(max_len), one NUL-padded cell per sample, "." for a
   missing sample (also when every sample is missing: fix 17).  Any number of samples, strings of
   unequal length, the empty string included; fmt_str_ok = no NUL inside, well-formed UTF-8, length <= 2^31-1. *)
Theorem bcf_string_series_roundtrip : forall vals,
  vals <> [] ->
  (forall s, In (Some s) vals -> fmt_str_ok s /\ s <> [dot]) ->
  exists bs, enc_fmt_strings vals = Ok bs /\ dec_fmt_strings (length vals) bs = ROk vals.
Proof. exact fmt_strings_roundtrip. Qed.
Print Assumptions bcf_string_series_roundtrip.

Theorem bcf_string_series_dot_refuted :
  exists vals bs, enc_fmt_strings vals = Ok bs /\ dec_fmt_strings (length vals) bs = ROk [None; Some [97%N]]
                  /\ vals = [Some [dot]; Some [97%N]].
Proof. exact fmt_strings_dot_refuted. Qed.
Print Assumptions bcf_string_series_dot_refuted.

Theorem bcf_string_series_no_sample_is_error : enc_fmt_strings [] = ErrInput.
Proof. exact fmt_strings_no_sample_is_error. Qed.
Print Assumptions bcf_string_series_no_sample_is_error.

Theorem bcf_char_series_roundtrip : forall vals,
  vals <> [] -> (forall c, In (Some c) vals -> c <> dot /\ c <> nul /\ (c < 128)%N) ->
  exists bs, enc_fmt_chars vals = Ok bs /\ dec_fmt_chars (length vals) bs = ROk vals.
Proof. exact fmt_chars_roundtrip. Qed.
Print Assumptions bcf_char_series_roundtrip.

(* a missing sample of a Character vector series comes back as the vector [missing] (the same
   VCF text `.`): [char_arr_back] *)
Theorem bcf_char_vector_series_roundtrip : forall vals,
  vals <> [] ->
  (forall cs, In (Some cs) vals -> cs <> [] /\ chars_ok cs /\
     utf8_valid (join comma (map char_piece cs)) = true /\
     Z.of_nat (length (join comma (map char_piece cs))) <= 2147483647) ->
  exists bs, enc_fmt_char_arrays vals = Ok bs /\
             dec_fmt_char_arrays (length vals) bs = ROk (map char_arr_back vals).
Proof. exact fmt_char_arrays_roundtrip. Qed.
Print Assumptions bcf_char_vector_series_roundtrip.

Theorem bcf_string_vector_series_roundtrip : forall vals,
  vals <> [] ->
  (forall vs, In (Some vs) vals -> vs <> [] /\ strs_ok vs /\
     utf8_valid (join comma (map str_piece vs)) = true /\
     Z.of_nat (length (join comma (map str_piece vs))) <= 2147483647) ->
  exists bs, enc_fmt_str_arrays vals = Ok bs /\
             dec_fmt_str_arrays (length vals) bs = ROk (map norm_strs vals).
Proof. exact fmt_str_arrays_roundtrip. Qed.
Print Assumptions bcf_string_vector_series_roundtrip.

Theorem bcf_string_vector_series_special_refuted :
  exists vals bs, enc_fmt_str_arrays vals = Ok bs /\
    dec_fmt_str_arrays (length vals) bs = ROk [Some [Some [97%N]; Some [98%N]]]
    /\ vals = [Some [Some [97%N; comma; 98%N]]].
Proof. exact fmt_str_arrays_special_refuted. Qed.
Print Assumptions bcf_string_vector_series_special_refuted.

(* ---------------------------------------------------------------- the dictionaries *)
(* NV.Bcf.StringMap mirrors noodles-vcf header/string_maps.rs (after fix 09): PASS = 0, `insert`
   per header line (INFO, FILTER, FORMAT lines in that order for the strings; contig lines
   separately), IDX when present (insert_at, which resizes with holes; an IDX that names a slot
   held by another ID, or an ID that reappears with another IDX, is StringMapPositionMismatch),
   else order of appearance (push).
   wf m: index -> name -> index and name -> index -> name.
   Whenever the build succeeds the dictionary is well formed, every header ID resolves to an
   index that resolves back to it, an explicit IDX is the index, and PASS stays at 0. *)
Theorem bcf_string_map_resolve : forall ls m,
  build_strings ls = Some m ->
  wf m /\
  (forall id idx, In (id, idx) ls ->
     exists i, get_index_of m id = Some i /\ get_index m i = Some id /\
               (forall k, idx = Some k -> i = k)) /\
  get_index_of m PASS = Some 0%nat /\ get_index m 0 = Some PASS.
Proof. exact build_strings_resolve_built. Qed.
Print Assumptions bcf_string_map_resolve.

Theorem bcf_contig_map_resolve : forall ls m,
  build_contigs ls = Some m ->
  wf m /\
  (forall id idx, In (id, idx) ls ->
     exists i, get_index_of m id = Some i /\ get_index m i = Some id /\
               (forall k, idx = Some k -> i = k)).
Proof. exact build_contigs_resolve_built. Qed.
Print Assumptions bcf_contig_map_resolve.

(* the same from any well-formed starting dictionary; bindings made earlier never move *)
Theorem bcf_string_map_resolve_from : forall m0 ls m,
  wf m0 -> build_from m0 ls = Some m ->
  wf m /\
  (forall id idx, In (id, idx) ls ->
     exists i, get_index_of m id = Some i /\ get_index m i = Some id /\
               (forall k, idx = Some k -> i = k)) /\
  (forall n i, get_index_of m0 n = Some i -> get_index_of m n = Some i).
Proof. exact string_map_resolve_built. Qed.
Print Assumptions bcf_string_map_resolve_from.

(* input-only sufficient conditions: no line carries an IDX; or every line carries one and the
   assignment is a function, injective, and only PASS uses index 0 / the name PASS *)
Theorem bcf_string_map_no_idx : forall ls,
  all_idx_none ls ->
  exists m, build_strings ls = Some m /\ wf m /\
    (forall id idx, In (id, idx) ls -> exists i, get_index_of m id = Some i /\ get_index m i = Some id) /\
    get_index_of m PASS = Some 0%nat.
Proof. exact build_strings_no_idx_ok. Qed.
Print Assumptions bcf_string_map_no_idx.

Theorem bcf_string_map_explicit_idx : forall ls,
  all_idx_some ls -> idx_functional ls -> idx_injective ls -> fresh_for default_strings ls ->
  exists m, build_strings ls = Some m /\ wf m /\
    (forall id k, In (id, Some k) ls -> get_index_of m id = Some k /\ get_index m k = Some id) /\
    get_index_of m PASS = Some 0%nat.
Proof. exact build_strings_explicit_ok. Qed.
Print Assumptions bcf_string_map_explicit_idx.

(* the former class header-idx-conflict-accepted (repaired by fix 09): an explicit IDX naming a
   slot that a different ID holds -- through its own IDX or through order of appearance -- is an
   error, never two IDs sharing an index *)
Theorem bcf_string_map_conflict_is_error :
  build_strings [([65%N], Some 1%nat); ([66%N], Some 1%nat)] = None /\
  build_strings [([65%N], None); ([66%N], Some 1%nat)] = None /\
  build_contigs [([65%N], Some 1%nat); ([66%N], Some 1%nat)] = None.
Proof. exact string_map_conflict_is_error. Qed.
Print Assumptions bcf_string_map_conflict_is_error.

Theorem bcf_string_map_conflict_is_error_general : forall m id i e,
  get_index_of m id = None -> get_index m i = Some e -> insert m id (Some i) = None.
Proof. exact insert_conflict_is_error. Qed.
Print Assumptions bcf_string_map_conflict_is_error_general.

(* ---------------------------------------------------------------- record framing *)
Theorem bcf_index_roundtrip : forall i rest, 0 <= i <= 2147483647 ->
  exists bs, enc_index i = Ok bs /\ dec_index (bs ++ rest) = Some (i, rest).
Proof. exact index_roundtrip. Qed.
Print Assumptions bcf_index_roundtrip.

Theorem bcf_index_too_large_is_error : forall i, 2147483647 < i -> enc_index i = ErrInput.
Proof. exact enc_index_err. Qed.
Print Assumptions bcf_index_too_large_is_error.

(* FILTER: none, one or several string-map indices as a typed int (vector) *)
Theorem bcf_filter_indices_roundtrip : forall l rest,
  (forall x, In x l -> 0 <= x <= 2147483647) -> Z.of_nat (length l) <= 2147483647 ->
  exists bs, enc_indices l = Ok bs /\ dec_indices (bs ++ rest) = Some (l, rest).
Proof. exact indices_roundtrip. Qed.
Print Assumptions bcf_filter_indices_roundtrip.

Theorem bcf_record_frame_roundtrip : forall sb ib rest,
  sb <> [] -> Z.of_nat (length sb) <= 4294967295 -> Z.of_nat (length ib) <= 4294967295 ->
  dec_frame (le_bytes 4 (Z.of_nat (length sb)) ++ le_bytes 4 (Z.of_nat (length ib)) ++ sb ++ ib ++ rest)
  = Some (sb, ib, rest).
Proof. exact frame_roundtrip. Qed.
Print Assumptions bcf_record_frame_roundtrip.

(* write_site / read_site up to FILTER.  site_ok: CHROM is in the contig dictionary, POS is none
   or 1..2^31-1 (stored as POS-1; none = -1), rlen and the counts fit their fields, QUAL is none or
   a pattern outside the reserved NaNs, IDs are non-empty without ';', alleles are non-empty,
   FILTERs are in the string dictionary; n_fmt <= 255 and n_sample <= 2^24-1 share one u32. *)
Theorem bcf_site_head_roundtrip : forall strings contigs s infos n_fmt ib,
  wf strings -> wf contigs ->
  site_ok strings contigs s (Z.of_nat (length infos)) n_fmt ->
  enc_fields strings infos = Ok ib ->
  exists sb, enc_site strings contigs s infos n_fmt = Ok sb /\ sb <> [] /\
             dec_head strings contigs sb = Some (head_of s (Z.of_nat (length infos)) n_fmt, ib).
Proof. exact site_head_roundtrip. Qed.
Print Assumptions bcf_site_head_roundtrip.

Theorem bcf_unknown_chrom_is_error : forall strings contigs s infos n_fmt,
  get_index_of contigs (s_chrom s) = None -> enc_site strings contigs s infos n_fmt = ErrInput.
Proof. exact unknown_chrom_is_error. Qed.
Print Assumptions bcf_unknown_chrom_is_error.

(* an INFO / FORMAT field: its key index is read back and resolves to the key; the reader then
   stands at the typed value [vb] (the value theorems above) *)
Theorem bcf_field_key_roundtrip : forall strings k v vb fs rest i,
  wf strings -> get_index_of strings k = Some i -> Z.of_nat i <= 2147483647 ->
  v = Ok vb -> enc_fields strings fs = Ok rest ->
  exists kb, enc_fields strings ((k, v) :: fs) = Ok (kb ++ vb ++ rest) /\
             dec_index (kb ++ vb ++ rest) = Some (Z.of_nat i, vb ++ rest) /\
             get_index strings (Z.to_nat (Z.of_nat i)) = Some k.
Proof. exact field_key_roundtrip. Qed.
Print Assumptions bcf_field_key_roundtrip.

(* c10_record_roundtrip_partial: write_record, then the reader's split and read_site: the same
   site head, the reader positioned at the INFO block [ib], and the FORMAT block [fb] as written.
   Partial: the INFO / FORMAT blocks are opaque byte blocks here; the walk over their fields is
   c10_record_roundtrip below. *)
Theorem c10_record_roundtrip_partial : forall strings contigs s infos fmts (has_rows : bool) ib fb rest,
  wf strings -> wf contigs ->
  site_ok strings contigs s (Z.of_nat (length infos)) (Z.of_nat (length fmts)) ->
  enc_fields strings infos = Ok ib ->
  (if has_rows then enc_fields strings fmts else Ok (@nil N)) = Ok fb ->
  (forall sb, enc_site strings contigs s infos (Z.of_nat (length fmts)) = Ok sb ->
     Z.of_nat (length sb) <= 4294967295) ->
  Z.of_nat (length fb) <= 4294967295 ->
  exists bs sb, enc_record strings contigs s infos fmts has_rows = Ok bs /\
    dec_frame (bs ++ rest) = Some (sb, fb, rest) /\
    dec_head strings contigs sb
      = Some (head_of s (Z.of_nat (length infos)) (Z.of_nat (length fmts)), ib).
Proof. exact record_roundtrip. Qed.
Print Assumptions c10_record_roundtrip_partial.

(* ---------------------------------------------------------------- the INFO / FORMAT blocks *)
(* every typed value / series the writers of NV.Bcf.{Typed,Strings,Genotype} emit is
   self-delimiting: whatever follows it, the reader (read_value for an INFO value, read_values /
   read_genotype_values for a series over n samples) consumes exactly those bytes *)
Theorem bcf_info_values_self_delimiting :
  (forall vb, enc_info_missing = Ok vb -> sd false 1 vb) /\
  (forall n vb, enc_info_int n = Ok vb -> sd false 1 vb) /\
  (forall vs vb, enc_info_ints vs = Ok vb -> sd false 1 vb) /\
  (forall b vb, enc_info_float b = Ok vb -> sd false 1 vb) /\
  (forall vs vb, enc_info_floats vs = Ok vb -> sd false 1 vb) /\
  (forall s vb, enc_info_string s = Ok vb -> sd false 1 vb).
Proof.
  exact (conj sd_info_missing (conj sd_info_int (conj sd_info_ints (conj sd_info_float
          (conj sd_info_floats sd_info_string))))).
Qed.
Print Assumptions bcf_info_values_self_delimiting.

Theorem bcf_format_series_self_delimiting :
  (forall vals vb, enc_fmt_int vals = Ok vb -> sd true (length vals) vb) /\
  (forall vals vb, (1 <= max_len vals)%nat -> enc_fmt_ints vals = Ok vb -> sd true (length vals) vb) /\
  (forall vals vb, enc_fmt_float vals = Ok vb -> sd true (length vals) vb) /\
  (forall vals vb, (1 <= fmax_len vals)%nat -> enc_fmt_floats vals = Ok vb -> sd true (length vals) vb) /\
  (forall gs raws vb, map_res (map_res enc_allele) gs = Ok raws -> (1 <= gt_max_len raws)%nat ->
     enc_gt gs = Ok vb -> sd true (length gs) vb) /\
  (forall vals vb, enc_fmt_strings vals = Ok vb -> sd true (length vals) vb) /\
  (forall vals vb, enc_fmt_chars vals = Ok vb -> sd true (length vals) vb) /\
  (forall vals vb, enc_fmt_char_arrays vals = Ok vb -> sd true (length vals) vb) /\
  (forall vals vb, enc_fmt_str_arrays vals = Ok vb -> sd true (length vals) vb).
Proof.
  exact (conj sd_fmt_int (conj sd_fmt_ints (conj sd_fmt_float (conj sd_fmt_floats (conj sd_gt
          (conj sd_fmt_strings (conj sd_fmt_chars (conj sd_fmt_char_arrays sd_fmt_str_arrays)))))))).
Qed.
Print Assumptions bcf_format_series_self_delimiting.

(* the walk: any number of fields, each a key of the dictionary followed by a self-delimiting
   value: the reader gets back every key and every value block in order (dup = true: INFO, whose
   reader rejects a repeated key) *)
Theorem bcf_fields_walk : forall m mult dup fs rest,
  wf m ->
  (forall k vb, In (k, vb) fs -> exists i, get_index_of m k = Some i /\ Z.of_nat i <= 2147483647) ->
  (forall k vb, In (k, vb) fs -> sd (negb dup) mult vb) ->
  (dup = true -> NoDup (map fst fs)) ->
  exists blk, enc_fields m (map lift fs) = Ok blk /\
              dec_fields m mult dup (length fs) (blk ++ rest) = Some (fs, rest).
Proof. exact fields_walk. Qed.
Print Assumptions bcf_fields_walk.

(* c10_record_roundtrip: the whole record.  For every site satisfying site_ok, any number of INFO
   fields (distinct keys of the dictionary, self-delimiting values) and any number of FORMAT
   series over the header's n_sample samples, write_record produces bytes from which
   read_record_buf's split, read_site, read_info's walk and read_samples' walk recover the same
   site head, the same INFO keys with the same value blocks and the same FORMAT keys with the
   same series blocks, and stop exactly at the end of the record.  Composed with the two theorems
   above and the value theorems, every field's block is the encoding of its value and decodes to
   it.  (What this does not contain: one Coq datatype of typed records with the dispatch on the
   header's Number/Type choosing the value decoder -- per field that is the corresponding value
   theorem; it is exercised as a whole by the `blk` and `rec` cases.) *)
Theorem c10_record_roundtrip : forall strings contigs s infos fmts (has_rows : bool) hdr_samples rest,
  wf strings -> wf contigs -> s_n_sample s <= hdr_samples ->
  site_ok strings contigs s (Z.of_nat (length infos)) (Z.of_nat (length fmts)) ->
  (forall k vb, In (k, vb) (infos ++ fmts) ->
     exists i, get_index_of strings k = Some i /\ Z.of_nat i <= 2147483647) ->
  (forall k vb, In (k, vb) infos -> sd false 1 vb) -> NoDup (map fst infos) ->
  (forall k vb, In (k, vb) fmts -> sd true (Z.to_nat (s_n_sample s)) vb) ->
  (has_rows = true \/ fmts = []) ->
  (forall sb, enc_site strings contigs s (map lift infos) (Z.of_nat (length fmts)) = Ok sb ->
     Z.of_nat (length sb) <= 4294967295) ->
  (forall fb, enc_fields strings (map lift fmts) = Ok fb -> Z.of_nat (length fb) <= 4294967295) ->
  exists bs, enc_record strings contigs s (map lift infos) (map lift fmts) has_rows = Ok bs /\
    dec_record strings contigs hdr_samples (bs ++ rest)
    = Some (head_of s (Z.of_nat (length infos)) (Z.of_nat (length fmts)), infos, fmts, rest).
Proof. exact record_full_roundtrip. Qed.
Print Assumptions c10_record_roundtrip.

(* ---------------------------------------------------------------- totality (for C15) *)
(* At the repaired tree no decoder reaches a panic: for EVERY byte string and every sample count
   the models return a value or an error.  (The models are compared with the real decoders on
   hostile value bytes by the `hx` cases.) *)
Theorem bcf_info_int_never_panics : forall array bs, dec_info_int_gen array bs <> RPanic.
Proof. exact dec_info_int_gen_np. Qed.
Print Assumptions bcf_info_int_never_panics.

Theorem bcf_info_float_never_panics : forall array bs, dec_info_float_gen array bs <> RPanic.
Proof. exact dec_info_float_gen_np. Qed.
Print Assumptions bcf_info_float_never_panics.

Theorem bcf_info_string_never_panics : forall bs,
  dec_info_string bs <> RPanic /\ dec_info_str bs <> RPanic /\ dec_info_strs bs <> RPanic /\
  dec_info_char bs <> RPanic /\ dec_info_chars bs <> RPanic.
Proof.
  intros bs. exact (conj (dec_info_string_np bs) (conj (dec_info_str_np bs) (conj (dec_info_strs_np bs)
    (conj (dec_info_char_np bs) (dec_info_chars_np bs))))).
Qed.
Print Assumptions bcf_info_string_never_panics.

Theorem bcf_format_int_never_panics : forall scalar ns bs, dec_fmt_int_gen scalar ns bs <> RPanic.
Proof. exact dec_fmt_int_gen_np. Qed.
Print Assumptions bcf_format_int_never_panics.

Theorem bcf_format_float_never_panics : forall scalar ns bs, dec_fmt_float_gen scalar ns bs <> RPanic.
Proof. exact dec_fmt_float_gen_np. Qed.
Print Assumptions bcf_format_float_never_panics.

Theorem bcf_format_string_never_panics : forall ns bs,
  dec_fmt_strings ns bs <> RPanic /\ dec_fmt_str_arrays ns bs <> RPanic /\
  dec_fmt_chars ns bs <> RPanic /\ dec_fmt_char_arrays ns bs <> RPanic.
Proof.
  intros ns bs. exact (conj (dec_fmt_strings_np ns bs) (conj (dec_fmt_str_arrays_np ns bs)
    (conj (dec_fmt_chars_np ns bs) (dec_fmt_char_arrays_np ns bs)))).
Qed.
Print Assumptions bcf_format_string_never_panics.

Theorem bcf_genotype_never_panics : forall ns bs, dec_gt ns bs <> RPanic.
Proof. exact dec_gt_np. Qed.
Print Assumptions bcf_genotype_never_panics.

(* read_record_buf as a whole (NV.Bcf.RecordTyped.dec_record_typed: frame, site head, the walks
   over both blocks, the header's Number/Type choosing each value decoder, GT, the per-sample rows,
   the header sample count): on EVERY byte string, for every dictionary, every header typing of the
   keys and every header sample count, a record or an error, never a panic.  The model is compared
   with read_record_buf on mutated records by the `hxr` cases. *)
Theorem bcf_dec_record_never_panics : forall strings contigs ik fk hs bs,
  dec_record_typed strings contigs ik fk hs bs <> RPanic.
Proof. exact dec_record_typed_np. Qed.
Print Assumptions bcf_dec_record_never_panics.

Theorem bcf_info_field_never_panics : forall k vb, dec_info_kind k vb <> RPanic.
Proof. exact dec_info_kind_np. Qed.
Print Assumptions bcf_info_field_never_panics.

Theorem bcf_format_field_never_panics : forall k ns vb, dec_fmt_kind k ns vb <> RPanic.
Proof. exact dec_fmt_kind_np. Qed.
Print Assumptions bcf_format_field_never_panics.

(* c10_partial: the composition for the modelled kinds.  Partial: there is no single Coq datatype
   of typed records (the dispatch on the header's Number/Type that picks a field's value decoder
   is per-field: the value theorems; the walk itself is c10_record_roundtrip); the lazy
   bcf::Record accessors and the VCF text
   rendering are covered by the implementation-side oracle only; Character/String values are
   proved outside the class string-special-chars. *)
Theorem c10_partial :
  (forall n, -2147483640 <= n <= 2147483647 ->
     exists bs, enc_info_int n = Ok bs /\ dec_info_int bs = ROk (RInt n)) /\
  (forall n, n < -2147483640 -> enc_info_int n = ErrInput) /\
  (forall vs, vs <> [] -> (forall n, In (Some n) vs -> -2147483640 <= n <= 2147483647) ->
     Z.of_nat (length vs) <= 2147483647 ->
     exists bs, enc_info_ints vs = Ok bs /\ dec_info_ints bs = ROk (norm_info_ints vs)) /\
  (forall vals, entries_within (-2147483640) 2147483647 vals ->
     (1 <= max_len vals)%nat -> Z.of_nat (max_len vals) <= 2147483647 ->
     exists bs, enc_fmt_ints vals = Ok bs /\
                dec_fmt_ints (length vals) bs = ROk (BVectors (map norm vals))) /\
  (forall b, 0 <= b < 4294967296 -> ~ reserved_nan b ->
     exists bs, enc_info_float b = Ok bs /\ dec_info_float bs = ROk (RFloat b)) /\
  (forall vs, vs <> [] -> floats_ok vs -> Z.of_nat (length vs) <= 2147483647 ->
     exists bs, enc_info_floats vs = Ok bs /\ dec_info_floats bs = ROk (norm_info_floats vs)) /\
  (forall vals, fentries_ok vals -> has_vector vals = true ->
     (1 <= fmax_len vals)%nat -> Z.of_nat (fmax_len vals) <= 2147483647 ->
     exists bs, enc_fmt_floats vals = Ok bs /\
                dec_fmt_floats (length vals) bs = ROk (BVectors (map norm vals))) /\
  (forall code len rest, valid_code code = true -> 0 <= len <= 2147483647 ->
     exists bs, enc_type code len = Ok bs /\ read_type (bs ++ rest) = Some (code, len, rest)) /\
  (forall gs, (forall g a, In g gs -> In a g -> allele_valid a) ->
     (1 <= gt_max_len (map (map code) gs))%nat ->
     Z.of_nat (gt_max_len (map (map code) gs)) <= 2147483647 ->
     exists bs, enc_gt gs = Ok bs /\ dec_gt (length gs) bs = ROk (map Some gs)) /\
  (forall vs, vs <> [] -> strs_ok vs ->
     utf8_valid (join comma (map str_piece vs)) = true ->
     Z.of_nat (length (join comma (map str_piece vs))) <= 2147483647 ->
     exists bs, enc_info_strs vs = Ok bs /\ dec_info_strs bs = ROk (SStrs vs)) /\
  (forall vals, vals <> [] ->
     (forall vs, In (Some vs) vals -> vs <> [] /\ strs_ok vs /\
        utf8_valid (join comma (map str_piece vs)) = true /\
        Z.of_nat (length (join comma (map str_piece vs))) <= 2147483647) ->
     exists bs, enc_fmt_str_arrays vals = Ok bs /\
                dec_fmt_str_arrays (length vals) bs = ROk (map norm_strs vals)) /\
  (forall ls m, build_strings ls = Some m ->
     wf m /\ (forall id idx, In (id, idx) ls ->
       exists i, get_index_of m id = Some i /\ get_index m i = Some id /\
                 (forall k, idx = Some k -> i = k))) /\
  (forall strings contigs s infos n_fmt ib, wf strings -> wf contigs ->
     site_ok strings contigs s (Z.of_nat (length infos)) n_fmt ->
     enc_fields strings infos = Ok ib ->
     exists sb, enc_site strings contigs s infos n_fmt = Ok sb /\ sb <> [] /\
                dec_head strings contigs sb = Some (head_of s (Z.of_nat (length infos)) n_fmt, ib)).
Proof.
  split; [|split; [exact int_below_min_is_error|split; [exact info_int_vector_roundtrip|
    split; [exact fmt_int_vector_roundtrip|split; [exact float_roundtrip|
    split; [exact info_float_vector_roundtrip|split; [exact fmt_float_series_roundtrip|
    split; [exact descriptor_roundtrip|split; [exact genotype_roundtrip|
    split; [exact info_strs_roundtrip|split; [exact fmt_str_arrays_roundtrip|
    split; [|exact site_head_roundtrip]]]]]]]]]]]].
  - intros n H. destruct (int_width_sound n H) as [w [bs [_ [_ [_ [E D]]]]]]. exists bs. split; assumption.
  - intros ls m Hb. destruct (build_strings_resolve_built ls m Hb) as [W [R _]]. split; assumption.
Qed.
Print Assumptions c10_partial.

(* non-vacuity *)
Example c10_examples :
  enc_info_int (-121) = Ok [18%N; 135%N; 255%N] /\            (* Int16: 0x12 0x87 0xff *)
  enc_info_int (-120) = Ok [17%N; 136%N] /\                   (* Int8:  0x11 0x88 *)
  enc_info_int 128 = Ok [18%N; 128%N; 0%N] /\
  enc_info_int (-2147483641) = ErrInput /\
  enc_info_ints [Some (-120); None; Some 127] = Ok [49%N; 136%N; 128%N; 127%N] /\
  dec_info_ints [49%N; 136%N; 128%N; 127%N] = ROk (RInts [Some (-120); None; Some 127]) /\
  max_len [Some [Some 1; None]; None; Some [Some 70000]] = 2%nat.
Proof. vm_compute. repeat split; reflexivity. Qed.

Example c10_series_example :
  exists bs, enc_fmt_ints [Some [Some 1; None; Some (-121)]; None; Some [Some 300]] = Ok bs /\
             dec_fmt_ints 3 bs = ROk (BVectors [Some [Some 1; None; Some (-121)]; None; Some [Some 300]]).
Proof. exact series_example. Qed.

(* non-vacuity of the framing theorem: a concrete record (dictionary with an IDX gap, two IDs, one
   ALT, two FILTERs, two INFO flags, QUAL 30.0) is written and its head read back *)
Example c10_record_example :
  exists strings contigs bs sb ib,
    build_strings [([75; 48]%N, Some 5%nat); ([102; 48]%N, None); ([102; 49]%N, Some 200%nat)] = Some strings /\
    build_contigs [([99; 48]%N, Some 1%nat)] = Some contigs /\
    no_clobber_from default_strings [([75; 48]%N, Some 5%nat); ([102; 48]%N, None); ([102; 49]%N, Some 200%nat)] = true /\
    let s := {| s_chrom := [99; 48]%N; s_pos := Some 100; s_rlen := 2; s_qual := Some 1106247680;
                s_ids := [[114; 115]%N; [120]%N]; s_ref := [65; 67]%N; s_alts := [[71]%N];
                s_filters := [[102; 49]%N; [102; 48]%N]; s_n_sample := 3 |} in
    enc_record strings contigs s [([75; 48]%N, enc_info_missing)] [] false = Ok bs /\
    dec_frame bs = Some (sb, [], []) /\
    dec_head strings contigs sb = Some (head_of s 1 0, ib) /\
    ib = [17%N; 5%N; 0%N].
Proof.
  eexists. eexists. eexists. eexists. eexists.
  split; [vm_compute; reflexivity|]. split; [vm_compute; reflexivity|]. split; [vm_compute; reflexivity|].
  cbv zeta. split; [vm_compute; reflexivity|]. split; [vm_compute; reflexivity|].
  split; [vm_compute; reflexivity|reflexivity].
Qed.

(* ================================================================ the VCF <-> BCF bridge *)
(* NV.Bcf.Bridge puts the BCF writer and reader on C09's record datatype NV.Vcf.Line.vrec (what a
   RecordBuf holds): bcf_write = write_record with the INFO writer's dispatch on the value variant
   and the FORMAT writer's dispatch on the header's Type / Number, bcf_read = read_record_buf with
   the header's Number/Type choosing every value decoder (dec_record_typed) and the RecordBuf it
   fills.  Both are compared with the real crates on every `vb` case (one RecordBuf through both
   real writers and readers). *)
From NV Require Import Base.Percent Text.TextBase Vcf.Values Vcf.Line Vcf.ValuesProofs Vcf.SampleProofs Vcf.LineProofs.
From NV Require Import Bcf.Ints Bcf.Typed Bcf.Strings Bcf.Genotype Bcf.StringMap Bcf.StringMapProofs Bcf.Record Bcf.RecordProofs Bcf.BlockProofs Bcf.RecordTyped.
From NV Require Import Bcf.StringsExact Bcf.Bridge Bcf.BridgeProofs Bcf.ColumnProofs Bcf.BoundedK.
From NV Require Import Bcf.Ints Bcf.Typed Bcf.Strings Bcf.Genotype Bcf.StringMap Bcf.Record Bcf.RecordTyped.
Open Scope Z_scope.

(* the block walk with the GT exemption of read_genotype_values (a zero-length GT descriptor is
   accepted) accepts everything the walk of c10_record_roundtrip accepts, with the same result: the
   record theorem carries over to the reader the typed record uses *)
Theorem bcf_record_walk_gt_exemption : forall strings contigs hs bs x,
  dec_record strings contigs hs bs = Some x -> dec_record_k strings contigs hs bs = Some x.
Proof. exact dec_record_k_of_dec_record. Qed.
Print Assumptions bcf_record_walk_gt_exemption.

(* Every INFO field a RecordBuf can hold, THROUGH the header dispatch: the writer picks the encoder
   from the value's variant, the reader picks the decoder from the header's (Number, Type) of the
   key; when the two describe the same kind (ikind_val), the value is in BCF's range (bval_ok) and
   outside the class string-special-chars (info_special, a decidable predicate), the field is
   self-delimiting and is read back as the same value.  A field whose value is missing (`K=.`) is
   read back as missing under every kind but Flag. *)
Theorem c10_info_field_typed_roundtrip : forall kd v,
  ikind_val kd v -> bval_ok v -> info_special v = false ->
  exists vb iv, enc_info_val (Some v) = Ok vb /\ sd false 1 vb /\
                dec_info_kind kd vb = ROk iv /\ value_of_ival iv = Some v.
Proof. exact info_val_rt. Qed.
Print Assumptions c10_info_field_typed_roundtrip.

Theorem c10_info_field_missing_roundtrip : forall kd, kd <> KFlag ->
  exists vb iv, enc_info_val None = Ok vb /\ sd false 1 vb /\
                dec_info_kind kd vb = ROk iv /\ value_of_ival iv = None.
Proof. exact info_none_rt. Qed.
Print Assumptions c10_info_field_missing_roundtrip.

(* `K=.` under a Flag key (a Flag has no value in VCF; outside the property's domain): BCF stores
   presence only and the field is read back as the Flag being set *)
Theorem c10_info_flag_missing_refuted :
  exists vb, enc_info_val None = Ok vb /\ dec_info_kind KFlag vb = ROk IFlagV /\
             value_of_ival IFlagV = Some VFlag.
Proof. exact info_flag_missing_refuted. Qed.
Print Assumptions c10_info_flag_missing_refuted.

(* A whole sites-only record (no FORMAT keys, no samples, header without samples) as a typed
   record: bcf_write accepts it and bcf_read -- frame, site head, the walk over the INFO block, the
   header dispatch of every field, the RecordBuf -- returns the record itself.  bcf_site_ok:
   site_ok of the site fields, IDs and FILTERs without repetition, INFO keys distinct and in the
   dictionary, every field info_field_ok (defined in the header with an accepted (Number, Type),
   value of that kind, in range, outside string-special-chars; missing only under a non-Flag key). *)
Theorem c10_bcf_sites_roundtrip : forall strings contigs h rlen r rest,
  wf strings -> wf contigs -> sites_only h r -> bcf_site_ok strings contigs h rlen r ->
  (forall sb, enc_site strings contigs (site_of h rlen r) (info_fields r) 0 = Ok sb ->
     Z.of_nat (length sb) <= 4294967295) ->
  exists bs, bcf_write strings contigs h rlen r = Ok bs /\
             bcf_read strings contigs h (bs ++ rest) = ROk r.
Proof. exact bcf_sites_roundtrip. Qed.
Print Assumptions c10_bcf_sites_roundtrip.

(* c10_bcf_vcf_agree, proved for sites-only records (_partial): ONE record, written as VCF text
   (C09's write_line) and as BCF: the VCF re-read (read_eager; C09's c09_record_line_roundtrip) and
   the BCF re-read both succeed and have the same content.  [content] is the normal form of
   NV.Bcf.Bridge; on these records the two re-reads differ at most in REF (the VCF writer resolves
   IUPAC codes, the BCF writer stores REF raw).  The float premises are those of C09 (the f32 text
   oracle). *)
Theorem c10_bcf_vcf_agree_partial :
  forall fmt_float prs_float (FOK : N -> Prop),
  (forall b, FOK b -> prs_float (fmt_float b) = Some b) ->
  (forall b x, FOK b -> In x (fmt_float b) -> x <> 44 /\ x <> 9 /\ x <> 10 /\ x <> 59 /\ x <> 58)%N ->
  (forall b, FOK b -> fmt_float b <> Values.dot) ->
  (forall b, FOK b -> fmt_float b <> []) ->
  forall strings contigs h rlen r t rest,
  wf strings -> wf contigs -> sites_only h r ->
  rec_ok fmt_float FOK h r -> write_line fmt_float h r = Some t ->
  bcf_site_ok strings contigs h rlen r ->
  (forall sb, enc_site strings contigs (site_of h rlen r) (info_fields r) 0 = Ok sb ->
     Z.of_nat (length sb) <= 4294967295) ->
  exists bs a b,
    bcf_write strings contigs h rlen r = Ok bs /\
    read_eager prs_float h t = Some a /\
    bcf_read strings contigs h (bs ++ rest) = ROk b /\
    content (h_v44 h) a = content (h_v44 h) b.
Proof. exact bcf_vcf_agree_sites. Qed.
Print Assumptions c10_bcf_vcf_agree_partial.

(* ---- the FORMAT half ---- *)
(* FORMAT Integer, Number = 1: one Integer per sample, missing samples included, any values in
   -2^31+8..2^31-1, through the writer's min/max scan (a missing sample counts as 0) and width
   choice (the scalar counterpart of bcf_int_vector_roundtrip, which was missing) *)
Theorem bcf_int_scalar_series_roundtrip : forall vals,
  (forall n, In (Some n) vals -> -2147483640 <= n <= 2147483647) ->
  exists bs, enc_fmt_int vals = Ok bs /\ dec_fmt_int (length vals) bs = ROk (BScalars vals).
Proof. exact fmt_int_scalar_roundtrip. Qed.
Print Assumptions bcf_int_scalar_series_roundtrip.

(* A column of per-sample values of a key other than GT, THROUGH both dispatches: the writer's
   write_values (header Type, Number = 1 / other; a value of another variant is InvalidInput) and
   the reader's read_values (header (Number, Type)).  fcol_ok kd c: at least one sample; every cell
   missing or a value of the kind, in BCF's range and outside string-special-chars (fmt_special);
   a Float vector series has one present vector.  The series is accepted, self-delimiting, and every
   sample's value is read back as bnorm kd of it: itself, except that a missing sample of a
   Character vector series is the vector [missing] and a String vector that is one missing entry is
   the missing sample (both are the VCF text `.`). *)
Theorem c10_fmt_column_typed_roundtrip : forall kd c, fcol_ok kd c ->
  exists vb cells, enc_fmt_col kd c = Ok vb /\ sd true (length c) vb /\
    dec_fmt_kind kd (length c) vb = ROk cells /\ map value_of_cell cells = map (bnorm kd) c.
Proof. exact fmt_col_rt. Qed.
Print Assumptions c10_fmt_column_typed_roundtrip.

(* the GT column: every sample a genotype with 1..2^31-1 alleles, allele indices <= 62 *)
Theorem c10_gt_column_roundtrip : forall c, gtcol_ok c ->
  exists vb cells, enc_gt_col c = Ok vb /\ sd true (length c) vb /\
    dec_gt_col (length c) vb = ROk cells /\ map value_of_cell cells = c.
Proof. exact gt_col_rt. Qed.
Print Assumptions c10_gt_column_roundtrip.

(* the columns pushed onto the rows one after the other (read_samples: `for (sample, value) in
   samples.iter_mut().zip(values) { sample.push(value) }`) are the transposed table *)
Theorem bcf_columns_into_rows : forall A R J (d : A) (F : J -> R -> A) (rows : list R) (jks : list J),
  fold_left ColumnProofs.push (map (fun jk => map (F jk) rows) jks) (repeat [] (length rows))
  = map (fun row => map (fun jk => F jk row) jks) rows.
Proof. exact transpose_table. Qed.
Print Assumptions bcf_columns_into_rows.

(* A whole record WITH samples as a typed record: bcf_write accepts it and bcf_read returns bback of
   it -- the record itself with every sample row completed to one value per key (trailing missing
   values) and bnorm applied per cell.  bcf_samples_dom: site_ok, IDs / FILTERs / INFO keys / FORMAT
   keys without repetition and in the dictionary, every INFO field info_field_dom (header kind, BCF
   range), one row per header sample (at least one), every FORMAT key fmt_key_dom (header kind; its
   column gtcol_ok resp. in the kind and BCF's range).  The excluded class is exactly bcf_special. *)
Theorem c10_bcf_record_roundtrip : forall strings contigs h rlen r rest,
  wf strings -> wf contigs -> bcf_samples_dom strings contigs h rlen r -> bcf_special r = false ->
  (forall sb, enc_site strings contigs (site_of h rlen r) (info_fields r) (Z.of_nat (length (r_keys r))) = Ok sb ->
     Z.of_nat (length sb) <= 4294967295) ->
  (forall fb, enc_fields strings (fmt_fields h r) = Ok fb -> Z.of_nat (length fb) <= 4294967295) ->
  exists bs, bcf_write strings contigs h rlen r = Ok bs /\
             bcf_read strings contigs h (bs ++ rest) = ROk (bback h r).
Proof. exact bcf_samples_roundtrip. Qed.
Print Assumptions c10_bcf_record_roundtrip.

(* c10_bcf_vcf_agree (the former c10_bcf_vcf_agree_full_statement, now proved, and stronger: the
   BCF writer's acceptance is a conclusion).  ONE RecordBuf, with or without samples: if it is in
   C09's rec_ok and the VCF writer accepts it, it is in BCF's domain (bcf_dom: site_ok, INFO keys in
   the dictionary, every INFO field / FORMAT column of its header kind and in BCF's range -- all
   conditions the BCF writer checks or that are ranges of the format) and it is outside the class
   string-special-chars (bcf_special r = false, a decidable predicate on the record), then the BCF
   writer accepts it, the VCF re-read (read_eager, C09's line theorem) and the BCF re-read
   (bcf_read) both succeed, and the two have the same content (NV.Bcf.Bridge.content). *)
Theorem c10_bcf_vcf_agree :
  forall fmt_float prs_float (FOK : N -> Prop),
  (forall b, FOK b -> prs_float (fmt_float b) = Some b) ->
  (forall b x, FOK b -> In x (fmt_float b) -> x <> 44 /\ x <> 9 /\ x <> 10 /\ x <> 59 /\ x <> 58)%N ->
  (forall b, FOK b -> fmt_float b <> Values.dot) ->
  (forall b, FOK b -> fmt_float b <> []) ->
  forall strings contigs h rlen r t rest,
  wf strings -> wf contigs ->
  rec_ok fmt_float FOK h r -> write_line fmt_float h r = Some t ->
  bcf_dom strings contigs h rlen r -> bcf_special r = false ->
  (forall sb, enc_site strings contigs (site_of h rlen r) (info_fields r) (Z.of_nat (length (r_keys r))) = Ok sb ->
     Z.of_nat (length sb) <= 4294967295) ->
  (forall fb, enc_fields strings (fmt_fields h r) = Ok fb -> Z.of_nat (length fb) <= 4294967295) ->
  exists bs a b,
    bcf_write strings contigs h rlen r = Ok bs /\
    read_eager prs_float h t = Some a /\
    bcf_read strings contigs h (bs ++ rest) = ROk b /\
    content (h_v44 h) a = content (h_v44 h) b.
Proof. exact bcf_vcf_agree. Qed.
Print Assumptions c10_bcf_vcf_agree.

(* The class string-special-chars is EXACT.  bcf_special r is true iff some INFO value is
   info_special (the empty String; a Character vector element '.' or ','; the String vector [""], a
   String vector element "." or holding ',') or some per-sample value is fmt_special (Character '.'
   or NUL; String "." or holding NUL; a vector element '.', ',', NUL resp. ".", or holding ',' / NUL).
   Outside the class every record is read back as written (c10_bcf_vcf_agree).  Inside it: whatever
   bytes stand where the value of an INFO key / the series of a FORMAT key stands, the typed reader
   NEVER returns such a value -- BCF has no representation of it at all (the writer stores it, and
   something else comes back: the *_refuted theorems). *)
Theorem c10_special_unrepresentable_info : forall kd v vb iv,
  info_special v = true -> ikind_val kd v -> dec_info_kind kd vb = ROk iv -> value_of_ival iv <> Some v.
Proof. exact info_special_unrepresentable. Qed.
Print Assumptions c10_special_unrepresentable_info.

Theorem c10_special_unrepresentable_format : forall kd ns vb cells v,
  fmt_special v = true -> fkind_match kd v -> dec_fmt_kind kd ns vb = ROk cells ->
  ~ In (Some v) (map value_of_cell cells).
Proof. exact fmt_special_unrepresentable. Qed.
Print Assumptions c10_special_unrepresentable_format.

(* REUSED BUFFERS: read_record_buf into a RecordBuf that still holds ANY previous record (also the
   record_bufs() iterator) returns what a fresh buffer returns, results and errors alike.  The model
   bcf_read_into threads the buffer through the reader the way the code does: read_site assigns
   every site field, read_info clears the buffer's own Info map and inserts field by field (a key
   already present is DuplicateKey), the samples are assigned.  (Tied to the implementation by the
   last observation of every `vb` case; the lazy bcf::Record reuse is covered by the `mr` oracle.) *)
Theorem c10_reused_recordbuf_independent : forall prev strings contigs h bs,
  bcf_read_into prev strings contigs h bs = bcf_read strings contigs h bs.
Proof. exact reused_recordbuf_independent. Qed.
Print Assumptions c10_reused_recordbuf_independent.

(* the bounds of C15's dec_fields_bounded / dec_record_bounded for the block walk the typed reader
   uses (dec_fields_k / dec_record_k, with the GT exemption): on EVERY byte string n accepted fields
   cost at least 3 n bytes, exactly n are returned, the blocks lie inside the input *)
Theorem bcf_dec_fields_k_bounded : forall m mult dup n bs l r,
  dec_fields_k m mult dup n bs = Some (l, r) ->
  (3 * n + length r <= length bs)%nat /\ length l = n.
Proof. exact NV.Bcf.BoundedK.dec_fields_k_bounded. Qed.
Print Assumptions bcf_dec_fields_k_bounded.

Theorem bcf_dec_record_k_bounded : forall strings contigs hs bs h infos fmts rest,
  dec_record_k strings contigs hs bs = Some (h, infos, fmts, rest) ->
  (8 + 3 * length fmts + length rest <= length bs)%nat /\ h_n_sample h <= hs /\
  length infos = Z.to_nat (h_n_info h) /\ length fmts = Z.to_nat (h_n_fmt h).
Proof. exact NV.Bcf.BoundedK.dec_record_k_bounded. Qed.
Print Assumptions bcf_dec_record_k_bounded.

(* non-vacuity: a concrete sites-only record (INFO Integer scalar needing Int16, Integer vector
   with a missing entry, String, Flag; an IUPAC code in REF) goes through both paths, and the
   class string-special-chars is inhabited: an empty INFO String is read back as missing *)
Definition ex_h : hctx :=
  {| h_v44 := false;
     h_infos := [([75; 48]%N, (NCount 1, TInteger)); ([75; 49]%N, (NOther, TInteger));
                 ([75; 50]%N, (NCount 1, TString)); ([75; 51]%N, (NCount 0, TFlag))];
     h_formats := []; h_nsamples := 0 |}.
Definition ex_r (s : list N) : vrec :=
  {| r_chrom := [99]%N; r_pos := 5%N; r_ids := [[114; 115]%N]; r_ref := [82; 65]%N; r_alts := [[84]%N];
     r_qual := None; r_filters := [];
     r_info := [([75; 48]%N, Some (VInteger 300)); ([75; 49]%N, Some (VIntArr [Some 1; None]));
                ([75; 50]%N, Some (VString s)); ([75; 51]%N, Some VFlag)];
     r_keys := []; r_samples := [] |}.

Example c10_bridge_example :
  exists strings contigs bs,
    build_strings [([75; 48]%N, None); ([75; 49]%N, None); ([75; 50]%N, None); ([75; 51]%N, None)] = Some strings /\
    build_contigs [([99]%N, None)] = Some contigs /\
    bcf_special (ex_r [120]%N) = false /\
    bcf_write strings contigs ex_h 2 (ex_r [120]%N) = Ok bs /\
    bcf_read strings contigs ex_h bs = ROk (ex_r [120]%N) /\
    r_ref (content false (ex_r [120]%N)) = [65; 65]%N.
Proof.
  eexists. eexists. eexists.
  split; [vm_compute; reflexivity|]. split; [vm_compute; reflexivity|].
  split; [vm_compute; reflexivity|]. split; [vm_compute; reflexivity|].
  split; vm_compute; reflexivity.
Qed.

Example c10_bridge_special_refuted :
  exists strings contigs bs b,
    build_strings [([75; 48]%N, None); ([75; 49]%N, None); ([75; 50]%N, None); ([75; 51]%N, None)] = Some strings /\
    build_contigs [([99]%N, None)] = Some contigs /\
    bcf_special (ex_r []) = true /\
    bcf_write strings contigs ex_h 2 (ex_r []) = Ok bs /\
    bcf_read strings contigs ex_h bs = ROk b /\
    Line.assoc [75; 50]%N (r_info b) = Some None.
Proof.
  eexists. eexists. eexists. eexists.
  split; [vm_compute; reflexivity|]. split; [vm_compute; reflexivity|].
  split; [vm_compute; reflexivity|]. split; [vm_compute; reflexivity|].
  split; vm_compute; reflexivity.
Qed.

(* non-vacuity with samples: GT, an Integer scalar and an Integer vector over two samples, the second
   row shorter than the key list: written, read back as bback (the short row completed) *)
Definition ex_h2 : hctx :=
  {| h_v44 := false; h_infos := [];
     h_formats := [([71; 84]%N, (NCount 1, TString)); ([68; 80]%N, (NCount 1, TInteger));
                   ([65; 68]%N, (NOther, TInteger))];
     h_nsamples := 2 |}.
Definition ex_r2 : vrec :=
  {| r_chrom := [99]%N; r_pos := 7%N; r_ids := []; r_ref := [65]%N; r_alts := [[67]%N];
     r_qual := None; r_filters := []; r_info := [];
     r_keys := [[71; 84]%N; [68; 80]%N; [65; 68]%N];
     r_samples := [[Some (VGenotype [(Some 0%N, false); (Some 1%N, false)]); Some (VInteger 300);
                    Some (VIntArr [Some 1; None])];
                   [Some (VGenotype [(Some 1%N, true); (Some 1%N, true)]); None]] |}.

Example c10_bridge_samples_example :
  exists strings contigs bs,
    build_strings [([71; 84]%N, None); ([68; 80]%N, None); ([65; 68]%N, None)] = Some strings /\
    build_contigs [([99]%N, None)] = Some contigs /\
    bcf_special ex_r2 = false /\
    bcf_write strings contigs ex_h2 1 ex_r2 = Ok bs /\
    bcf_read strings contigs ex_h2 bs = ROk (bback ex_h2 ex_r2) /\
    r_samples (bback ex_h2 ex_r2)
    = [[Some (VGenotype [(Some 0%N, false); (Some 1%N, false)]); Some (VInteger 300); Some (VIntArr [Some 1; None])];
       [Some (VGenotype [(Some 1%N, true); (Some 1%N, true)]); None; None]].
Proof.
  eexists. eexists. eexists.
  split; [vm_compute; reflexivity|]. split; [vm_compute; reflexivity|].
  split; [vm_compute; reflexivity|]. split; [vm_compute; reflexivity|].
  split; vm_compute; reflexivity.
Qed.

(* the former class format-keys-without-sample-rows (repaired in e6b6f67): a RecordBuf with FORMAT
   keys but no sample row, under a header without samples, is written exactly as the same record
   without its keys (n_fmt = 0, no FORMAT block) and is read back as that record -- which is also
   what the VCF writer and reader make of it *)
Theorem c10_format_keys_without_rows_roundtrip : forall strings contigs h rlen r rest,
  wf strings -> wf contigs -> h_nsamples h = O -> r_samples r = [] ->
  bcf_site_ok strings contigs h rlen (drop_keys r) ->
  (forall sb, enc_site strings contigs (site_of h rlen r) (info_fields r) 0 = Ok sb ->
     Z.of_nat (length sb) <= 4294967295) ->
  exists bs, bcf_write strings contigs h rlen r = Ok bs /\
             bcf_read strings contigs h (bs ++ rest) = ROk (drop_keys r).
Proof. exact keys_without_rows_roundtrip. Qed.
Print Assumptions c10_format_keys_without_rows_roundtrip.

(* ==== lazy accessors (c10-lazy) ==== *)
(* The LAZY read path, NV.Bcf.Lazy.lazy_read: bcf::io::Reader::read_record into a bcf::Record
   (Fields::index builds the bounds with consume_string / consume_integers) followed by
   vcf::variant::RecordBuf::try_from_variant_record, which forces every lazy view.  The model returns a
   panic outcome where the Rust could panic (every `&buf[s..e]`, Filters' `read_type(..).unwrap()` and
   `unreachable!()`, `allele_count() - 1`) and is compared byte for byte with the real crates by the
   `lz` kind of bin/check C10.  v44 = the header's file format is VCF 4.4 or later.
   The model is that of the tree AFTER the repairs 0b0f2ab (the record's own raw Character / String array
   views), 0ba8d0b (an empty allele string is `.`), a1ba5e6 (a GT series without values: the missing
   value for every sample, in both readers), e4c926c (INFO Character: one character of any encoded
   length), a82186d (Samples::series yields exactly n_fmt series) and 30014e8 (try_from_variant_record
   returns InvalidData when the record has more samples than the header names, after Record::samples()
   and before it collects anything): lazy_read_hdr takes the header's sample count hs; lazy_read is the
   same conversion without that check (lazy_read_hdr either equals it or is an error). *)
From NV Require Import Bcf.Lazy Bcf.LazyProofs Bcf.LazySiteProofs Bcf.LazyInfoProofs Bcf.LazyFmtProofs
  Bcf.LazyColProofs Bcf.LazyEagerProofs Bcf.LazyConverse Bcf.LazyClasses Bcf.NeverPanics.
From NV Require Import Bcf.Ints Bcf.Typed Bcf.Strings Bcf.Genotype Bcf.StringMap Bcf.Record Bcf.RecordTyped.

(* (a) TOTALITY: for every byte string, every dictionary, every header typing of the keys, either file
   format and every sample count of the header (and without the sample-count check), the lazy path
   returns a RecordBuf or an error -- never a panic *)
Theorem c10_lazy_never_panics :
  (forall v44 strings contigs ik fk hs bs, lazy_read_hdr v44 strings contigs ik fk hs bs <> RPanic) /\
  (forall v44 strings contigs ik fk bs, lazy_read v44 strings contigs ik fk bs <> RPanic).
Proof. exact (conj lazy_read_hdr_never_panics lazy_read_never_panics). Qed.
Print Assumptions c10_lazy_never_panics.

(* the header's sample names are used for one thing: the check rejects, or changes nothing *)
Theorem c10_lazy_header_check : forall v44 strings contigs ik fk hs bs,
  lazy_read_hdr v44 strings contigs ik fk hs bs = lazy_read v44 strings contigs ik fk bs \/
  lazy_read_hdr v44 strings contigs ik fk hs bs = RErr.
Proof. exact lazy_read_hdr_or. Qed.
Print Assumptions c10_lazy_header_check.

(* what makes it so: the descriptor reader depends on the bytes it consumes only ... *)
Theorem c10_lazy_read_type_local : forall bs c l r, read_type bs = Some (c, l, r) ->
  exists d, bs = d ++ r /\ d <> [] /\ forall r', read_type (d ++ r') = Some (c, l, r').
Proof. exact read_type_local. Qed.
Print Assumptions c10_lazy_read_type_local.

(* ... and the bounds Fields::index stores are ordered, inside the site buffer, and delimit a FILTER
   value whose descriptor read_type accepts with an integer (or the missing) type *)
Theorem c10_lazy_index_bounds : forall sb bd, index_bounds sb = Some bd ->
  (24 <= length sb)%nat /\ allele_count sb <> 0 /\
  (fst (b_ids bd) <= snd (b_ids bd))%nat /\ (snd (b_ids bd) <= length sb)%nat /\
  (fst (b_ref bd) <= snd (b_ref bd))%nat /\ (snd (b_ref bd) <= b_alt_end bd)%nat /\
  (b_alt_end bd <= b_filters_end bd)%nat /\ (b_filters_end bd <= length sb)%nat /\
  exists c l r', read_type (firstn (b_filters_end bd - b_alt_end bd) (skipn (b_alt_end bd) sb)) = Some (c, l, r') /\
                 ((c =? 0) = true \/ width_of_code c <> None).
Proof. exact index_bounds_ok. Qed.
Print Assumptions c10_lazy_index_bounds.

(* the two loops of the model that run on a fuel (str::chars over a text, Filters::indices over chunks)
   never run out of it: every step consumes a byte, the fuel is the length of the input, and any larger
   fuel gives the same result.  (Samples::series is structural since a82186d: n_fmt steps.) *)
Theorem c10_lazy_fuel_enough :
  (forall n s f1 f2, (length s <= n)%nat -> (n <= f1)%nat -> (n <= f2)%nat ->
     utf8_chars_fuel f1 s = utf8_chars_fuel f2 s) /\
  (forall w n bs f1 f2, (length bs <= n)%nat -> (n <= f1)%nat -> (n <= f2)%nat ->
     lz_filter_entries w f1 bs = lz_filter_entries w f2 bs).
Proof. exact (conj utf8_chars_fuel_enough lz_filter_entries_fuel). Qed.
Print Assumptions c10_lazy_fuel_enough.

(* Samples::validate accepts exactly when the series iterator yields its n_fmt series: after
   Record::samples() succeeded, Samples::series never returns an error (and never looks past them) *)
Theorem c10_lazy_validate_is_the_series : forall ns nf bs,
  lz_validate ns nf bs = true <-> exists ss, lz_n_series ns nf bs = Some ss /\ length ss = nf.
Proof. exact lz_validate_n_series. Qed.
Print Assumptions c10_lazy_validate_is_the_series.

(* (b) LAZY = EAGER.  For EVERY record the eager read_record_buf accepts, the lazy path accepts it and
   builds the same RecordBuf up to trec_norm (a per-sample vector that is one missing entry = the
   missing value; before VCF 4.4 the first allele's phasing).  The seven classes on which the lazy
   accessors differed are no longer excluded.  What lazy_agree still asks for is that the record's
   Characters are ASCII: an INFO Character ARRAY is ASCII text, a per-sample Character (every element of
   a per-sample Character array) starts with an ASCII byte.  This is the documented assumption of the
   EAGER MODEL NV.Bcf.Strings (a Character is one byte), not a difference of the two readers: the real
   read_record_buf and the real lazy path return the same characters there (corpus/C10/lazy.case). *)
Theorem c10_lazy_eq_eager : forall v44 strings contigs ik fk hs bs t,
  byte_list bs ->
  dec_record_typed strings contigs ik fk hs bs = ROk t ->
  lazy_agree strings contigs ik fk hs bs = true ->
  exists t', lazy_read_hdr v44 strings contigs ik fk hs bs = ROk t' /\ trec_norm v44 t' = trec_norm v44 t.
Proof. exact lazy_hdr_eq_eager. Qed.
Print Assumptions c10_lazy_eq_eager.

(* lazy_agree, spelled out *)
Theorem c10_lazy_agree_is_ascii : forall strings contigs ik fk hs bs,
  lazy_agree strings contigs ik fk hs bs =
  match dec_record_k strings contigs hs bs with
  | Some (h, infos, fmts, _) =>
    forallb (fun kv : name * list N =>
      match ik (fst kv), dec_info_string (snd kv) with
      | Some (KChar true), ROk (Some s) => forallb (fun b => (b <? 128)%N) s
      | _, _ => true
      end) infos
    && forallb (fun kv : name * list N =>
      match read_type (snd kv) with
      | Some (code, len, pay) =>
        if name_eqb (fst kv) GT then true
        else match fk (fst kv) with
             | Some (FChar true) =>
               cells_all (fun x => first_ascii (until_nul x)) (Z.to_nat (h_n_sample h)) (znat (S (length pay)) len) pay
             | Some (FChar false) =>
               cells_all (fun x => forallb first_ascii (split_on comma (until_nul x)))
                         (Z.to_nat (h_n_sample h)) (znat (S (length pay)) len) pay
             | _ => true
             end
      | None => true
      end) fmts
  | None => true
  end.
Proof. reflexivity. Qed.
Print Assumptions c10_lazy_agree_is_ascii.

(* ... so under a header without Character arrays in INFO and without Character FORMAT keys the theorem
   has no condition but the bytes being bytes *)
Theorem c10_lazy_eq_eager_without_characters : forall v44 strings contigs ik fk hs bs t,
  (forall k, ik k <> Some (KChar true)) /\ (forall k b, fk k <> Some (FChar b)) ->
  byte_list bs ->
  dec_record_typed strings contigs ik fk hs bs = ROk t ->
  exists t', lazy_read_hdr v44 strings contigs ik fk hs bs = ROk t' /\ trec_norm v44 t' = trec_norm v44 t.
Proof. exact lazy_eq_eager_without_characters. Qed.
Print Assumptions c10_lazy_eq_eager_without_characters.

(* agreement of the error cases, in the direction that holds everywhere: what the lazy path rejects, the
   eager reader rejects (the other direction holds outside lazy_only: c10_lazy_converse) *)
Theorem c10_lazy_rejects_eager_rejects : forall v44 strings contigs ik fk hs bs,
  byte_list bs -> lazy_agree strings contigs ik fk hs bs = true ->
  lazy_read_hdr v44 strings contigs ik fk hs bs = RErr ->
  dec_record_typed strings contigs ik fk hs bs = RErr.
Proof. exact lazy_rejects_eager_rejects. Qed.
Print Assumptions c10_lazy_rejects_eager_rejects.

(* per view: the site (reference sequence name, position, quality, IDs, REF, ALT, FILTER, the counts and
   the INFO bytes), whatever read_site decodes -- no condition since 0ba8d0b *)
Theorem c10_lazy_site_eq_eager : forall strings contigs sb h info_bytes,
  byte_list sb -> dec_head strings contigs sb = Some (h, info_bytes) ->
  exists bd,
    lz_index sb = ROk bd /\ lz_chrom contigs sb = ROk (h_chrom h) /\ lz_pos sb = ROk (h_pos h) /\
    lz_qual sb = ROk (h_qual h) /\ lz_ids bd sb = ROk (h_ids h) /\ lz_ref bd sb = ROk (h_ref h) /\
    lz_alts bd sb = ROk (h_alts h) /\ lz_filters strings bd sb = ROk (h_filters h) /\
    lz_slice (b_filters_end bd) (length sb) sb = ROk info_bytes /\
    lz_u16 16 sb = ROk (h_n_info h) /\ lz_format_count sb = ROk (h_n_fmt h) /\ lz_sample_count sb = ROk (h_n_sample h).
Proof.
  intros strings contigs sb h info_bytes Hb H.
  destruct (site_agree strings contigs sb h info_bytes Hb H) as [bd Hsv]. exists bd.
  destruct Hsv. repeat split; assumption.
Qed.
Print Assumptions c10_lazy_site_eq_eager.

(* per view: the INFO block -- the eager walk and header dispatch, field by field *)
Theorem c10_lazy_info_eq_eager : forall strings ik n bs infos r ivs,
  dec_fields_k strings 1 true n bs = Some (infos, r) ->
  map_rres (fun kv : name * list N =>
              match ik (fst kv) with
              | None => RErr
              | Some k => rbind (dec_info_kind k (snd kv)) (fun v => ROk (fst kv, v))
              end) infos = ROk ivs ->
  forallb (info_ascii ik) infos = true ->
  lz_info_fields strings ik n bs = ROk ivs /\ map fst ivs = map fst infos /\ keys_distinct (map fst infos) = true.
Proof. exact info_fields_agree. Qed.
Print Assumptions c10_lazy_info_eq_eager.

(* per view: one FORMAT series of any kind (GT, with or without values; Integer / Float / Character /
   String, scalar or array): Series::get(header, i) for i = 0..n_sample-1 is the eager column *)
Theorem c10_lazy_series_eq_eager : forall v44 fk ns k vb id code len pay ecol,
  byte_list pay -> read_type vb = Some (code, len, pay) ->
  eager_column fk ns (k, vb) = ROk ecol -> fmt_ascii fk ns (k, vb) = true ->
  exists lcol, lz_column v44 fk ns k (mk_series id code len pay) = ROk lcol /\
               map (cell_norm v44) lcol = map (cell_norm v44) ecol.
Proof. exact column_agree. Qed.
Print Assumptions c10_lazy_series_eq_eager.

(* per view: genotypes -- parse_genotype_values and the lazy Genotype::iter give the same alleles *)
Theorem c10_lazy_genotype_eq_eager : forall v44 cell g, byte_list cell ->
  parse_gt (map (fun b => dec_int W8 [b]) cell) = ROk g ->
  gt_norm v44 (lz_genotype v44 cell) = gt_norm v44 g.
Proof.
  intros v44 cell g Hb H. rewrite (parse_gt_cell cell g Hb H). apply genotype_norm_agree.
Qed.
Print Assumptions c10_lazy_genotype_eq_eager.

(* splitting well-formed UTF-8 at an ASCII byte (the comma of the array views) gives well-formed pieces *)
Theorem c10_lazy_utf8_split : forall p c r, (c < 128)%N ->
  utf8_valid (p ++ c :: r) = utf8_valid p && utf8_valid r.
Proof. intros p c r H. apply (utf8_split_ascii (length p)); [apply le_n|exact H]. Qed.
Print Assumptions c10_lazy_utf8_split.

(* The seven former classes.  Each `_refuted` witness of the unrepaired tree -- a record the eager reader
   accepted and the lazy path rejected or read differently -- is now a record BOTH models accept, inside
   lazy_agree, with the same RecordBuf (agrees = eager accepts /\ lazy_agree /\ equal up to trec_norm),
   and the value that used to differ is stated.  The records are cases of corpus/C10/lazy.case. *)
(* lazy-empty-allele: REF / ALT = the typed string of length 0 is `.` *)
Theorem c10_lazy_empty_allele_agrees :
  (agrees true KFlag (FInt true) 0 w_empty_ref /\
   match lazy true KFlag (FInt true) 0 w_empty_ref with ROk t => h_ref (t_head t) = [dot] | _ => False end) /\
  (agrees true KFlag (FInt true) 0 w_empty_alt /\
   match lazy true KFlag (FInt true) 0 w_empty_alt with ROk t => h_alts (t_head t) = [[dot]] | _ => False end).
Proof. exact (conj lazy_empty_ref_agrees lazy_empty_alt_agrees). Qed.
Print Assumptions c10_lazy_empty_allele_agrees.

(* lazy-samples-block-trailing-bytes: a byte / a whole series after the n_fmt series is not looked at *)
Theorem c10_lazy_samples_trailing_bytes_agrees :
  agrees true KFlag (FInt true) 0 w_trailing /\
  (agrees true KFlag (FInt true) 1 w_trailing_series /\
   match lazy true KFlag (FInt true) 1 w_trailing_series with
   | ROk t => t_keys t = [nY] /\ t_rows t = [[CI (Some 5)]]
   | _ => False
   end).
Proof. exact (conj lazy_trailing_bytes_agrees lazy_trailing_series_agrees). Qed.
Print Assumptions c10_lazy_samples_trailing_bytes_agrees.

(* lazy-gt-zero-length: a GT series without values is the missing value for every sample, in BOTH readers,
   and the series after it stay aligned (the eager reader used to return the rows [., 5] and [6]) *)
Theorem c10_lazy_gt_zero_length_agrees :
  (agrees true KFlag (FInt true) 1 w_gt_zero /\
   match lazy true KFlag (FInt true) 1 w_gt_zero with ROk t => t_rows t = [[CG None]] | _ => False end) /\
  (agrees true KFlag (FInt true) 2 w_gt_zero_rows /\
   match eager KFlag (FInt true) 2 w_gt_zero_rows with
   | ROk t => t_rows t = [[CG None; CI (Some 5)]; [CG None; CI (Some 6)]]
   | _ => False
   end).
Proof. exact (conj lazy_gt_zero_length_agrees lazy_gt_zero_length_rows_agree). Qed.
Print Assumptions c10_lazy_gt_zero_length_agrees.

(* lazy-array-percent-escape ("%41,b" stays ["%41", "b"]), lazy-char-array-piece-not-one-char ("ab" is
   [a, b]), lazy-string-array-empty (the empty per-sample text is [""], the text "." the missing value) *)
Theorem c10_lazy_string_arrays_agree :
  (agrees true (KStr true) (FInt true) 0 w_percent /\
   match lazy true (KStr true) (FInt true) 0 w_percent with
   | ROk t => t_info t = [(nX, IS (SStrs [Some [37; 52; 49]; Some [98]]))]%N
   | _ => False
   end) /\
  (agrees true (KChar true) (FInt true) 0 w_chars /\
   match lazy true (KChar true) (FInt true) 0 w_chars with
   | ROk t => t_info t = [(nX, IS (SChars [Some 97; Some 98]))]%N
   | _ => False
   end) /\
  (agrees true KFlag (FStr false) 1 w_empty_cell /\
   match lazy true KFlag (FStr false) 1 w_empty_cell with ROk t => t_rows t = [[CSV (Some [Some []])]] | _ => False end) /\
  (agrees true KFlag (FStr false) 1 w_dot_cell /\
   lazy true KFlag (FStr false) 1 w_dot_cell = eager KFlag (FStr false) 1 w_dot_cell).
Proof.
  exact (conj lazy_percent_escape_agrees (conj lazy_char_piece_agrees
        (conj lazy_string_array_empty_agrees lazy_string_array_dot_agrees))).
Qed.
Print Assumptions c10_lazy_string_arrays_agree.

(* lazy-info-character-multibyte: the lazy INFO Character accessor returns a character of two bytes
   (U+00E9).  That the real read_record_buf returns it too is checked on the implementation (corpus
   case, oracle); the eager MODEL rejects it -- a Character of NV.Bcf.Strings is one byte *)
Theorem c10_lazy_info_character_multibyte_read :
  match lazy true (KChar false) (FInt true) 0 w_multibyte with
  | ROk t => t_info t = [(nX, IS (SChar 233))]%N
  | _ => False
  end /\ is_err (eager (KChar false) (FInt true) 0 w_multibyte) = true.
Proof. exact lazy_info_character_multibyte_read. Qed.
Print Assumptions c10_lazy_info_character_multibyte_read.

(* the one thing lazy_agree excludes is inhabited, and the two MODELS do differ there: an INFO Character
   array holding U+00E9 is [U+00E9] in the lazy model and the two bytes [c3, a9] in the eager model
   (the real readers both return [U+00E9]: corpus case, oracle) *)
Theorem c10_lazy_agree_excludes_nonascii_characters :
  agree (KChar true) (FInt true) 0 w_nonascii_chars = false /\
  is_ok (eager (KChar true) (FInt true) 0 w_nonascii_chars) = true /\
  match lazy true (KChar true) (FInt true) 0 w_nonascii_chars with
  | ROk t => t_info t = [(nX, IS (SChars [Some 233]))]%N
  | _ => False
  end /\
  ~ same true (lazy true (KChar true) (FInt true) 0 w_nonascii_chars) (eager (KChar true) (FInt true) 0 w_nonascii_chars).
Proof. exact lazy_agree_excludes_nonascii_characters. Qed.
Print Assumptions c10_lazy_agree_excludes_nonascii_characters.

(* (c) THE CONVERSE.  The lazy path accepts more than read_record_buf; the class on which it does is the
   decidable predicate lazy_only of the input (computed from the lazy walk of the same bytes):
     site_lazy_only   rlen < 0 (the lazy path never looks at the span), or a FILTER value that is an
                      integer vector of length 0 (read_string_map_indices rejects it, Filters::iter
                      returns no filter);
     info_lazy_only   the same INFO key twice (read_info: DuplicateKey; the lazy path collects into an
                      IndexMap and keeps the later value), or an INFO Character (Number=1) that is one
                      character of several bytes (rejected by the eager MODEL only: a Character of
                      NV.Bcf.Strings is one byte; the real read_record_buf accepts it);
     fmt_lazy_only    a series whose descriptor read_samples rejects before it reads a sample -- a key
                      without FORMAT definition (for GT: asked for by the eager MODEL only), a type
                      that does not fit the definition, a zero-length Integer / Float vector -- which
                      Series::get checks only when a sample asks for a value, i.e. never when
                      n_sample = 0; or a GT cell with a byte of 0x80, 0x82..0xff before its end
                      (parse_genotype_values: InvalidGenotype; the lazy Genotype::iter stops at a byte of
                      0x80..0x87 and takes every other byte for an allele). *)
Theorem c10_lazy_only_spelled_out : forall strings ik fk bs,
  lazy_only strings ik fk bs =
  match dec_frame bs with
  | Some (sb, ib, _) =>
    site_lazy_only sb
    || match lz_index sb, lz_sample_count sb, lz_format_count sb, lz_u16 16 sb with
       | ROk bd, ROk nsz, ROk nf, ROk ni =>
         match lz_slice (b_filters_end bd) (length sb) sb with
         | ROk info_bytes => info_lazy_only strings ik (Z.to_nat ni) info_bytes
         | _ => false
         end
         || fmt_lazy_only strings fk (Z.to_nat nsz) (Z.to_nat nf) ib
       | _, _, _, _ => false
       end
  | None => false
  end.
Proof. reflexivity. Qed.
Print Assumptions c10_lazy_only_spelled_out.

Theorem c10_lazy_only_parts :
  (forall sb, site_lazy_only sb =
     (dec_int W32 (firstn 4 (skipn 8 sb)) <? 0)
     || match index_bounds sb with
        | Some bd => match read_type (skipn (b_alt_end bd) sb) with
                     | Some (c, l, _) => negb (c =? 0) && (l =? 0)
                     | None => false
                     end
        | None => false
        end) /\
  (forall strings ik n ib, info_lazy_only strings ik n ib =
     negb (match lz_info_fields strings ik n ib with ROk l => keys_distinct (map fst l) | _ => true end)
     || negb (lz_info_char_ascii strings ik n ib)) /\
  (forall strings fk ns nf ib, fmt_lazy_only strings fk ns nf ib =
     match lz_n_series ns nf ib with
     | Some ss =>
       match lz_names strings ss with
       | ROk nms => negb (series_all (fun nm s => series_header_ok fk nm s && series_gt_ok ns nm s) nms ss)
       | _ => false
       end
     | None => false
     end) /\
  (forall fk nm s, series_header_ok fk nm s =
     match fk nm with
     | None => false
     | Some k =>
       if name_eqb nm GT then se_code s =? 1
       else negb ((se_len s =? 0) && negb (se_code s =? 7)) &&
            match k with
            | FInt _ => is_some (width_of_code (se_code s))
            | FFloat _ => se_code s =? 5
            | FChar _ | FStr _ => se_code s =? 7
            end
     end) /\
  (forall ns nm s, series_gt_ok ns nm s =
     if name_eqb nm GT
     then cells_all gt_cell_plain ns (1 * znat (S (length (se_pay s))) (se_len s)) (se_pay s)
     else true) /\
  (forall b r, gt_cell_plain (b :: r) = if (b =? 129)%N then true else (b <? 128)%N && gt_cell_plain r).
Proof. repeat split. Qed.
Print Assumptions c10_lazy_only_parts.

(* outside lazy_only (and inside lazy_agree, the ASCII premise of the eager model) a record the lazy path
   accepts is accepted by read_record_buf, with the same RecordBuf *)
Theorem c10_lazy_converse : forall v44 strings contigs ik fk hs bs t',
  byte_list bs ->
  lazy_read_hdr v44 strings contigs ik fk hs bs = ROk t' ->
  lazy_only strings ik fk bs = false ->
  lazy_agree strings contigs ik fk hs bs = true ->
  exists t, dec_record_typed strings contigs ik fk hs bs = ROk t /\ trec_norm v44 t' = trec_norm v44 t.
Proof. exact lazy_converse. Qed.
Print Assumptions c10_lazy_converse.

(* acceptance alone needs no ASCII premise *)
Theorem c10_lazy_accepts_eager_accepts : forall v44 strings contigs ik fk hs bs t',
  byte_list bs ->
  lazy_read_hdr v44 strings contigs ik fk hs bs = ROk t' ->
  lazy_only strings ik fk bs = false ->
  exists t, dec_record_typed strings contigs ik fk hs bs = ROk t.
Proof. exact lazy_accepts_eager_accepts. Qed.
Print Assumptions c10_lazy_accepts_eager_accepts.

(* both directions: outside the two classes the two readers accept the same records and reject the same
   records *)
Theorem c10_lazy_iff_eager : forall v44 strings contigs ik fk hs bs,
  byte_list bs -> lazy_only strings ik fk bs = false -> lazy_agree strings contigs ik fk hs bs = true ->
  ((exists t', lazy_read_hdr v44 strings contigs ik fk hs bs = ROk t') <->
   (exists t, dec_record_typed strings contigs ik fk hs bs = ROk t)) /\
  (lazy_read_hdr v44 strings contigs ik fk hs bs = RErr <-> dec_record_typed strings contigs ik fk hs bs = RErr).
Proof. exact lazy_iff_eager. Qed.
Print Assumptions c10_lazy_iff_eager.

(* the class is EXACT: every member of lazy_only is rejected by the eager reader -- so (inside lazy_agree)
   "the lazy path accepts and read_record_buf rejects" happens on the members of lazy_only that the lazy
   path accepts, and nowhere else *)
Theorem c10_lazy_only_eager_rejects : forall strings contigs ik fk hs bs,
  byte_list bs -> lazy_agree strings contigs ik fk hs bs = true ->
  lazy_only strings ik fk bs = true ->
  dec_record_typed strings contigs ik fk hs bs = RErr.
Proof. exact lazy_only_eager_rejects. Qed.
Print Assumptions c10_lazy_only_eager_rejects.

(* per view: the site.  When Fields::index and the lazy views succeed, read_site succeeds, outside
   site_lazy_only; with c10_lazy_site_eq_eager: on the site block the lazy views accept exactly what
   read_site accepts plus rlen < 0 and the zero-length FILTER vector *)
Theorem c10_lazy_site_converse : forall strings contigs sb bd c p q rf alts fs,
  lz_index sb = ROk bd -> lz_chrom contigs sb = ROk c -> lz_pos sb = ROk p -> lz_qual sb = ROk q ->
  lz_ref bd sb = ROk rf -> lz_alts bd sb = ROk alts -> lz_filters strings bd sb = ROk fs ->
  site_lazy_only sb = false ->
  exists h info_bytes, dec_head strings contigs sb = Some (h, info_bytes).
Proof. exact site_converse. Qed.
Print Assumptions c10_lazy_site_converse.

(* per view: one FORMAT series of any kind *)
Theorem c10_lazy_series_converse : forall v44 fk ns nm id code len pay vb lcol,
  byte_list pay -> read_type vb = Some (code, len, pay) ->
  lz_column v44 fk ns nm (mk_series id code len pay) = ROk lcol ->
  series_header_ok fk nm (mk_series id code len pay) = true ->
  series_gt_ok ns nm (mk_series id code len pay) = true ->
  exists ecol, eager_column fk ns (nm, vb) = ROk ecol.
Proof. exact column_converse. Qed.
Print Assumptions c10_lazy_series_converse.

(* the class is inhabited in each of its parts, by records the lazy path accepts and the eager reader
   rejects.  The repairs did not touch these; each is a case of corpus/C10/lazy.case, on which the real
   lazy path returns the model's RecordBuf and the real read_record_buf returns an error: a zero-length
   FILTER vector; rlen < 0; the same INFO key twice; a GT cell
   that starts with the missing Int8 (the lazy genotype has NO alleles); n_sample = 0 with a series whose
   key has no FORMAT definition. *)
Theorem c10_lazy_accepts_more_than_eager :
  (is_err (eager KFlag (FInt true) 0 w_filter_len0) = true /\ is_ok (lazy true KFlag (FInt true) 0 w_filter_len0) = true) /\
  (is_err (eager KFlag (FInt true) 0 w_neg_rlen) = true /\ is_ok (lazy true KFlag (FInt true) 0 w_neg_rlen) = true) /\
  (is_err (eager KFlag (FInt true) 0 w_dup_info) = true /\
   match lazy true KFlag (FInt true) 0 w_dup_info with ROk t => t_info t = [(nX, IFlagV)] | _ => False end) /\
  (is_err (eager KFlag (FInt true) 1 w_gt_missing_byte) = true /\
   match lazy true KFlag (FInt true) 1 w_gt_missing_byte with ROk t => t_rows t = [[CG (Some [])]] | _ => False end) /\
  (is_err (eager KFlag (FInt true) 0 w_no_samples_undefined_key) = true /\
   match lazy true KFlag (FInt true) 0 w_no_samples_undefined_key with ROk t => t_keys t = [nX] /\ t_rows t = [] | _ => False end).
Proof.
  exact (conj lazy_accepts_empty_filter_vector_eager_rejects
        (conj lazy_accepts_negative_rlen_eager_rejects (conj lazy_accepts_duplicate_info_key_eager_rejects
        (conj lazy_accepts_gt_sentinel_eager_rejects lazy_accepts_undefined_key_without_samples_eager_rejects)))).
Qed.
Print Assumptions c10_lazy_accepts_more_than_eager.

(* n_sample above the header's sample count was a part of the class until 30014e8: the lazy path built
   n_sample rows whatever the header says.  Now both readers reject such a record (and it is outside
   lazy_only); under a header that names enough samples both accept it; the conversion without the
   check still accepts it *)
Theorem c10_lazy_sample_count_above_header_both_reject :
  is_err (eager KFlag (FInt true) 0 w_more_samples) = true /\ is_err (lazy true KFlag (FInt true) 0 w_more_samples) = true /\
  is_err (lazy true KFlag (FInt true) 1 w_more_samples) = true /\
  agrees true KFlag (FInt true) 2 w_more_samples /\
  is_ok (lazy_read true w_strings w_contigs (w_ik KFlag) (w_fk (FInt true)) w_more_samples) = true.
Proof. exact lazy_sample_count_above_header_both_reject. Qed.
Print Assumptions c10_lazy_sample_count_above_header_both_reject.

Theorem c10_lazy_only_witnesses :
  only KFlag (FInt true) w_more_samples = false /\ only KFlag (FInt true) w_filter_len0 = true /\
  only KFlag (FInt true) w_neg_rlen = true /\ only KFlag (FInt true) w_dup_info = true /\
  only KFlag (FInt true) w_gt_missing_byte = true /\ only KFlag (FInt true) w_no_samples_undefined_key = true /\
  only (KChar false) (FInt true) w_multibyte = true.
Proof. exact lazy_only_witnesses. Qed.
Print Assumptions c10_lazy_only_witnesses.

(* non-vacuity: a record with IDs, an ALT, a FILTER, an INFO String array, GT and a per-sample String
   array over two samples under a VCF 4.3 header lies inside the class, is accepted by both paths, the
   two RecordBufs are equal up to trec_norm -- and are NOT equal as they stand (the first allele's
   phasing), so the normal form is needed *)
Example c10_lazy_eq_eager_example :
  agree (KStr true) (FStr false) 2 w_good = true /\ is_ok (eager (KStr true) (FStr false) 2 w_good) = true /\
  same false (lazy false (KStr true) (FStr false) 2 w_good) (eager (KStr true) (FStr false) 2 w_good) /\
  lazy false (KStr true) (FStr false) 2 w_good <> eager (KStr true) (FStr false) 2 w_good.
Proof. exact lazy_agree_nonvacuous. Qed.

(* ... and it is outside lazy_only, inside lazy_agree and accepted by the lazy path: the premises of the
   converse are satisfiable *)
Example c10_lazy_converse_example :
  only (KStr true) (FStr false) w_good = false /\ agree (KStr true) (FStr false) 2 w_good = true /\
  is_ok (lazy false (KStr true) (FStr false) 2 w_good) = true.
Proof. exact lazy_converse_nonvacuous. Qed.
(* ==== end lazy ==== *)

(* ==== the BCF FILE: header block + record loop (NV.Bcf.File) ==== *)
From NV Require Import Text.TextBase Vcf.Values Vcf.Line Vcf.Header Vcf.HeaderProofs Vcf.HdrFrameProofs Vcf.File.
From NV Require Import Bcf.Ints Bcf.Typed Bcf.Strings Bcf.Genotype Bcf.StringMap Bcf.StringMapProofs Bcf.Record
  Bcf.RecordTyped Bcf.Bridge Bcf.BridgeProofs Bcf.ColumnProofs Bcf.Lazy Bcf.LazySiteProofs Bcf.LazyEagerProofs Bcf.File Bcf.FileProofs Bcf.FileLazyDomain Bcf.FileBytes Bcf.FileBytesFmt.

(* The line reader of the header text (header/vcf_header.rs + read_line): the written lines, each
   followed by LF, then the NUL, are split into exactly those lines, whatever follows the NUL.
   hline: the line starts with '#', holds no LF and does not end with CR (C09: every line
   write_header emits starts with '#'; framed iff hdr_vals_framed). *)
Theorem bcf_header_text_lines : forall ls X, Forall hline ls ->
  lines_of [] true (with_lf ls ++ 0%N :: X) = ls.
Proof. exact lines_of_written. Qed.
Print Assumptions bcf_header_text_lines.

(* The reader's string maps (StringMaps::insert_entry for every parsed line, in LINE order) are the
   writer's (StringMaps::try_from(&Header): contigs; INFO, FILTER, FORMAT) on every header the VCF
   header writer accepts -- equal as results, errors included -- and the written text reaches
   Parser State::Done (it has its #CHROM line). *)
Theorem bcf_header_string_maps_agree : forall h ls, header_ok h -> Header.write_header h = Some ls ->
  maps_of_lines ls = maps_of_header h /\ has_chrom_line ls = true /\ ls <> [].
Proof. exact written_maps. Qed.
Print Assumptions bcf_header_string_maps_agree.

(* The dictionaries of a header the writer accepts are well formed (every record theorem asks it). *)
Theorem bcf_header_string_maps_wf : forall h s c, maps_of_header h = Some (s, c) -> wf s /\ wf c.
Proof. exact maps_of_header_wf. Qed.
Print Assumptions bcf_header_string_maps_wf.

(* THE HEADER BLOCK.  Writer::write_header (magic, version 2.2, StringMaps::try_from, the VCF header
   text, CString NUL check, l_text as u32) followed by ANY bytes is read by read_header as the same
   header value with the writer's string maps, and the reader stands exactly at those bytes.
   header_ok + hdr_defs_ok: C09's domain of c09_header_roundtrip and the reserved-definition check;
   hdr_vals_framed: no LF inside / CR at the end of a header string (C09: iff every written line is
   framed).  The writer's own rejections (IDX conflict, a NUL in the text, text >= 4 GiB, the VCF
   header writer's InvalidInput) are in the premise write_prefix h = Some p. *)
Theorem c10_header_block_roundtrip : forall h p rest,
  header_ok h -> hdr_defs_ok h = true -> hdr_vals_framed h ->
  write_prefix h = Some p ->
  exists s c, maps_of_header h = Some (s, c) /\ read_prefix (p ++ rest) = FOk (h, s, c, rest).
Proof. exact prefix_roundtrip. Qed.
Print Assumptions c10_header_block_roundtrip.

(* The repaired short-read checks (b36f6c8 / 9b91450).  Whatever read_header accepts holds the
   magic, two version bytes, l_text and ALL l_text bytes of the text (a stream that ends earlier is
   UnexpectedEof or, when a cut line does not parse, InvalidData -- never a header) ... *)
Theorem c10_header_block_complete : forall bs h s c rest,
  read_prefix bs = FOk (h, s, c, rest) ->
  exists v lb text,
    bs = magic ++ v ++ lb ++ text ++ rest /\ length v = 2%nat /\ length lb = 4%nat /\
    Z.of_nat (length text) = le_val lb.
Proof. exact read_prefix_complete. Qed.
Print Assumptions c10_header_block_complete.

(* ... so no proper prefix of a written header block is read as a header. *)
Theorem c10_header_block_truncated_is_error : forall h p k x,
  write_prefix h = Some p -> (k < length p)%nat -> read_prefix (firstn k p) <> FOk x.
Proof. exact prefix_truncated_rejected. Qed.
Print Assumptions c10_header_block_truncated_is_error.

(* What write_record emits is one frame: when the reader accepts the record, its next read starts
   right after it (l_shared is never 0, which the reader takes for the end of the stream). *)
Theorem bcf_written_record_is_one_frame : forall s c hc rlen r b rest,
  bcf_write s c hc rlen r = Ok b -> dec_frame (b ++ rest) <> None ->
  exists sb ib, dec_frame (b ++ rest) = Some (sb, ib, rest).
Proof. exact written_frame. Qed.
Print Assumptions bcf_written_record_is_one_frame.

(* The record loops over the written records.  rec_rt / rec_rt_lazy: the record is accepted by the
   writer and read back as [back] whatever follows it (the conclusion of the record theorems).
   Eager: ONE RecordBuf reused through the loop (bcf_read_into, threaded).  Both end with Ok(0). *)
Theorem c10_file_record_loop : forall s c hc rs backs,
  Forall2 (rec_rt s c hc) rs backs ->
  forall body fuel prev, write_records s c hc rs = Ok body -> (length body < fuel)%nat ->
  read_eager fuel s c hc prev body = (backs, EndEof).
Proof. exact read_eager_written. Qed.
Print Assumptions c10_file_record_loop.

Theorem c10_file_record_loop_lazy : forall s c hc rs backs,
  Forall2 (rec_rt_lazy s c hc) rs backs ->
  forall body fuel, write_records s c hc rs = Ok body -> (length body < fuel)%nat ->
  read_lazy fuel s c hc body = (backs, EndEof).
Proof. exact read_lazy_written. Qed.
Print Assumptions c10_file_record_loop_lazy.

(* THE FILE THEOREM.  A header and records written as ONE BCF stream (write_header, then
   write_variant_record per record, with the writer's own string maps and the lookup tables of the
   header, hctx_of_header) are read back by read_header + the read_record_buf loop as the same
   header and, record by record, what the record theorems say (a record with sample rows: bback,
   i.e. itself with every row completed, c10_bcf_record_roundtrip; a sites-only record: itself,
   c10_bcf_sites_roundtrip), and the loop ends with Ok(0).  The per-record domain is stated under
   the string maps of the header (file_rec_dom). *)
Theorem c10_file_roundtrip : forall hd rs backs bs,
  header_ok hd -> hdr_defs_ok hd = true -> hdr_vals_framed hd ->
  (forall s c, maps_of_header hd = Some (s, c) -> Forall2 (file_rec_dom s c (hctx_of_header hd)) rs backs) ->
  bcf_write_file hd rs = Ok bs ->
  bcf_read_file bs = FOk (hd, (backs, EndEof)).
Proof. exact file_roundtrip. Qed.
Print Assumptions c10_file_roundtrip.

(* the same with the per-record premise left abstract (any record that round-trips) ... *)
Theorem c10_file_roundtrip_gen : forall hd rs backs bs,
  header_ok hd -> hdr_defs_ok hd = true -> hdr_vals_framed hd ->
  (forall s c, maps_of_header hd = Some (s, c) -> Forall2 (rec_rt s c (hctx_of_header hd)) rs backs) ->
  bcf_write_file hd rs = Ok bs ->
  bcf_read_file bs = FOk (hd, (backs, EndEof)).
Proof. exact file_roundtrip_gen. Qed.
Print Assumptions c10_file_roundtrip_gen.

(* ... and through the LAZY path (read_record + RecordBuf::try_from_variant_record =
   lazy_read_hdr), from the per-record LAZY read-back of each written record (rec_rt_lazy); from the
   eager domain: c10_file_roundtrip_lazy below. *)
Theorem c10_file_roundtrip_lazy_partial : forall hd rs backs bs,
  header_ok hd -> hdr_defs_ok hd = true -> hdr_vals_framed hd ->
  (forall s c, maps_of_header hd = Some (s, c) -> Forall2 (rec_rt_lazy s c (hctx_of_header hd)) rs backs) ->
  bcf_write_file hd rs = Ok bs ->
  bcf_read_file_lazy bs = FOk (hd, (backs, EndEof)).
Proof. exact file_roundtrip_lazy_gen. Qed.
Print Assumptions c10_file_roundtrip_lazy_partial.

(* LAZY FILE = EAGER FILE.  On a byte stream (byte_list) whose records, at the record boundaries the
   loop visits, are in lazy_agree (file_agree: a decidable predicate of the stream; lazy_agree is only
   the eager MODEL's limit that a Character is one ASCII byte, c10_lazy_agree_is_ascii): whenever
   read_header + the read_record_buf loop return (header, records, Ok(0)), read_header + the
   read_record / try_from_variant_record loop return the same header and as many records, each with
   the same content (NV.Bcf.Bridge.content), and end with Ok(0) too.  Any stream, written by noodles
   or not. *)
Theorem c10_file_lazy_eq_eager : forall bs hd backs,
  byte_list bs -> file_agree bs = true ->
  bcf_read_file bs = FOk (hd, (backs, EndEof)) ->
  exists lbacks, bcf_read_file_lazy bs = FOk (hd, (lbacks, EndEof)) /\
                 Forall2 (same_content (h_v44 (hctx_of_header hd))) lbacks backs.
Proof. exact file_lazy_of_eager. Qed.
Print Assumptions c10_file_lazy_eq_eager.

(* ... hence the file round trip through the lazy path, from the EAGER domain of c10_file_roundtrip *)
Theorem c10_file_roundtrip_lazy : forall hd rs backs bs,
  header_ok hd -> hdr_defs_ok hd = true -> hdr_vals_framed hd ->
  (forall s c, maps_of_header hd = Some (s, c) -> Forall2 (file_rec_dom s c (hctx_of_header hd)) rs backs) ->
  bcf_write_file hd rs = Ok bs ->
  byte_list bs -> file_agree bs = true ->
  exists lbacks, bcf_read_file_lazy bs = FOk (hd, (lbacks, EndEof)) /\
                 Forall2 (same_content (h_v44 (hctx_of_header hd))) lbacks backs.
Proof. exact file_roundtrip_lazy. Qed.
Print Assumptions c10_file_roundtrip_lazy.

(* THE CLASS PREMISE DISCHARGED FOR WRITTEN STREAMS, on the sub-domain of headers without Character
   arrays in INFO and without Character FORMAT keys (hdr_no_chars: a decidable predicate of the
   HEADER the writer is given -- effective definitions = the header's lines, then the reserved ones,
   as both readers look them up).  Under such a header every record boundary of every stream is in
   lazy_agree, whatever the bytes: *)
Theorem c10_file_agree_no_character_keys : forall bs,
  (forall h s c rest, read_prefix bs = FOk (h, s, c, rest) -> hdr_no_chars h = true) ->
  file_agree bs = true.
Proof. exact file_agree_no_chars. Qed.
Print Assumptions c10_file_agree_no_character_keys.

(* ... so lazy file = eager file on ANY byte stream with such a header (hostile streams included) *)
Theorem c10_file_lazy_eq_eager_no_character_keys : forall bs hd backs,
  byte_list bs -> hdr_no_chars hd = true ->
  bcf_read_file bs = FOk (hd, (backs, EndEof)) ->
  exists lbacks, bcf_read_file_lazy bs = FOk (hd, (lbacks, EndEof)) /\
                 Forall2 (same_content (h_v44 (hctx_of_header hd))) lbacks backs.
Proof. exact file_lazy_of_eager_no_chars. Qed.
Print Assumptions c10_file_lazy_eq_eager_no_character_keys.

(* ... and for the stream bcf_write_file WRITES the premise follows from the writer's input: the
   header read back is the header written (c10_header_block_roundtrip) *)
Theorem c10_file_agree_written : forall hd rs bs,
  header_ok hd -> hdr_defs_ok hd = true -> hdr_vals_framed hd ->
  hdr_no_chars hd = true ->
  bcf_write_file hd rs = Ok bs ->
  file_agree bs = true.
Proof. exact file_agree_written. Qed.
Print Assumptions c10_file_agree_written.

(* the full statement below on that sub-domain; what is left of the two premises is that the written
   stream is a list of BYTES (every N below 256: the model's strings are lists of N) *)
Theorem c10_file_roundtrip_lazy_no_character_keys_partial : forall hd rs backs bs,
  header_ok hd -> hdr_defs_ok hd = true -> hdr_vals_framed hd ->
  hdr_no_chars hd = true ->
  (forall s c, maps_of_header hd = Some (s, c) -> Forall2 (file_rec_dom s c (hctx_of_header hd)) rs backs) ->
  bcf_write_file hd rs = Ok bs ->
  byte_list bs ->
  exists lbacks, bcf_read_file_lazy bs = FOk (hd, (lbacks, EndEof)) /\
                 Forall2 (same_content (h_v44 (hctx_of_header hd))) lbacks backs.
Proof. exact file_roundtrip_lazy_no_chars. Qed.
Print Assumptions c10_file_roundtrip_lazy_no_character_keys_partial.

(* what the correspondence check reports per stream (kinds bf/bfx, field NC/A): whenever the header
   read back has no Character keys, the computed file_agree is true *)
Theorem c10_file_class_sound : forall bs nb a,
  file_class bs = (Some true, nb, a) -> a = true.
Proof. exact file_class_sound. Qed.
Print Assumptions c10_file_class_sound.

(* non-vacuity: the example header below is in the sub-domain *)
Example c10_no_character_keys_example : hdr_no_chars exf_h = true.
Proof. vm_compute. reflexivity. Qed.

(* ---- the WRITTEN stream is a list of bytes, from the writer's INPUT (NV.Bcf.FileBytes).
   file_bytes_ok hd rs (decidable) = the header text Header.write_header produces is bytes
   (hdr_text_bytes) and every record is sites-only (rec_sites_only: no FORMAT keys, no sample rows)
   with byte strings (rec_bytes_ok: IDs, REF, ALT, Character/String INFO values and elements) *)
Theorem c10_record_written_bytes_sites : forall strings contigs hc rlen r b,
  rec_sites_only r = true -> rec_bytes_ok r = true ->
  bcf_write strings contigs hc rlen r = Ok b -> byte_list b.
Proof. exact bcf_write_bytes_sites. Qed.
Print Assumptions c10_record_written_bytes_sites.

Theorem c10_file_written_bytes : forall h rs bs,
  file_bytes_ok h rs = true -> bcf_write_file h rs = Ok bs -> byte_list bs.
Proof. exact bcf_write_file_bytes. Qed.
Print Assumptions c10_file_written_bytes.

(* what the correspondence check reports per written file (kind bf, field WB) *)
Theorem c10_written_class_sound : forall h rs o,
  written_class h rs = (true, o) -> o = None \/ o = Some true.
Proof. exact written_class_sound. Qed.
Print Assumptions c10_written_class_sound.

(* c10_file_roundtrip_lazy_no_character_keys_partial WITHOUT its [byte_list bs] premise: every
   premise is now about the writer's input *)
Theorem c10_file_roundtrip_lazy_written_no_character_keys : forall hd rs backs bs,
  header_ok hd -> hdr_defs_ok hd = true -> hdr_vals_framed hd ->
  hdr_no_chars hd = true ->
  file_bytes_ok hd rs = true ->
  (forall s c, maps_of_header hd = Some (s, c) -> Forall2 (file_rec_dom s c (hctx_of_header hd)) rs backs) ->
  bcf_write_file hd rs = Ok bs ->
  exists lbacks, bcf_read_file_lazy bs = FOk (hd, (lbacks, EndEof)) /\
                 Forall2 (same_content (h_v44 (hctx_of_header hd))) lbacks backs.
Proof. exact file_roundtrip_lazy_written_no_chars. Qed.
Print Assumptions c10_file_roundtrip_lazy_written_no_character_keys.

(* ---- the same for records WITH FORMAT keys and sample rows (NV.Bcf.FileBytesFmt):
   rec_bytes_ok_all = rec_bytes_ok and the per-sample Character / String values and array elements
   are bytes; bytes lemmas for enc_fmt_col (eight kinds), enc_gt_col, the FORMAT block *)
Theorem c10_record_written_bytes : forall strings contigs hc rlen r b,
  rec_bytes_ok_all r = true ->
  bcf_write strings contigs hc rlen r = Ok b -> byte_list b.
Proof. exact bcf_write_bytes. Qed.
Print Assumptions c10_record_written_bytes.

Theorem c10_file_written_bytes_all : forall h rs bs,
  file_bytes_ok_all h rs = true -> bcf_write_file h rs = Ok bs -> byte_list bs.
Proof. exact bcf_write_file_bytes_all. Qed.
Print Assumptions c10_file_written_bytes_all.

Theorem c10_written_class_all_sound : forall h rs o,
  written_class_all h rs = (true, o) -> o = None \/ o = Some true.
Proof. exact written_class_all_sound. Qed.
Print Assumptions c10_written_class_all_sound.

Theorem c10_file_roundtrip_lazy_written_no_character_keys_all : forall hd rs backs bs,
  header_ok hd -> hdr_defs_ok hd = true -> hdr_vals_framed hd ->
  hdr_no_chars hd = true ->
  file_bytes_ok_all hd rs = true ->
  (forall s c, maps_of_header hd = Some (s, c) -> Forall2 (file_rec_dom s c (hctx_of_header hd)) rs backs) ->
  bcf_write_file hd rs = Ok bs ->
  exists lbacks, bcf_read_file_lazy bs = FOk (hd, (lbacks, EndEof)) /\
                 Forall2 (same_content (h_v44 (hctx_of_header hd))) lbacks backs.
Proof. exact file_roundtrip_lazy_written_no_chars_all. Qed.
Print Assumptions c10_file_roundtrip_lazy_written_no_character_keys_all.

(* non-vacuity: the example header's text is bytes *)
Example c10_hdr_text_bytes_example : hdr_text_bytes exf_h = true.
Proof. vm_compute. reflexivity. Qed.

(* still unproved: that the two premises on the WRITTEN bytes follow from the record domain (every
   string of a record of file_rec_dom is a byte string; its Characters are ASCII) *)
Definition c10_file_roundtrip_lazy_full_statement : Prop := forall hd rs backs bs,
  header_ok hd -> hdr_defs_ok hd = true -> hdr_vals_framed hd ->
  (forall s c, maps_of_header hd = Some (s, c) -> Forall2 (file_rec_dom s c (hctx_of_header hd)) rs backs) ->
  bcf_write_file hd rs = Ok bs ->
  exists lbacks, bcf_read_file_lazy bs = FOk (hd, (lbacks, EndEof)) /\
    Forall2 (same_content (h_v44 (hctx_of_header hd))) lbacks backs.

(* non-vacuity: a VCF 4.3 header with a contig, an INFO Integer with an explicit IDX, a FILTER, a
   FORMAT key and one sample; a record with that INFO field, GT and DP; the stream is written, and
   both loops read the header and the record back and end with Ok(0) *)
Definition exf_r : vrec :=
  {| r_chrom := [99]%N; r_pos := 7%N; r_ids := []; r_ref := [65]%N; r_alts := [[67]%N];
     r_qual := None; r_filters := [[113; 49; 48]%N]; r_info := [([68; 80]%N, Some (VInteger 300))];
     r_keys := [[71; 84]%N; [68; 80]%N];
     r_samples := [[Some (VGenotype [(Some 0%N, false); (Some 1%N, false)]); Some (VInteger 12)]] |}.

Example c10_file_example :
  exists bs, bcf_write_file exf_h [(1, exf_r); (1, exf_r)] = Ok bs /\
    bcf_read_file bs = FOk (exf_h, ([exf_r; exf_r], EndEof)) /\
    bcf_read_file_lazy bs = FOk (exf_h, ([exf_r; exf_r], EndEof)) /\
    read_prefix (firstn 7 bs) = FEof /\ read_prefix (firstn 40 bs) = FData /\ file_agree bs = true /\
    header_ok exf_h /\ hdr_defs_ok exf_h = true /\ hdr_vals_framed exf_h.
Proof.
  eexists. split; [vm_compute; reflexivity|]. split; [vm_compute; reflexivity|].
  split; [vm_compute; reflexivity|]. split; [vm_compute; reflexivity|]. split; [vm_compute; reflexivity|].
  split; [vm_compute; reflexivity|]. split; [exact exf_ok|]. split; [vm_compute; reflexivity|exact exf_framed].
Qed.
(* ==== end file ==== *)
