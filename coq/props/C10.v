(* C10 -- BCF typed encoding round-trips every value and carries the same content as VCF.
   Property theorems only.  Models: NV.Bcf.Ints (Int8/16/32 sentinels, width selection by scalar
   test and by min/max scan, byte images), NV.Bcf.Typed (descriptor byte, INFO Integer/Float/
   String values, per-sample FORMAT Integer/Float series, both directions), NV.Bcf.Genotype
   (GT series).  The models reproduce the pinned code including its error results and panics and
   are compared with the real writer/reader byte for byte by bin/check C10. *)
From Coq Require Import ZArith NArith List Bool.
From NV Require Import Bcf.Ints Bcf.IntsProofs Bcf.Typed Bcf.TypedProofs Bcf.Genotype Bcf.GenotypeProofs.
Import ListNotations.
Open Scope Z_scope.

(* Sentinel classification, all three widths, the whole range: Missing = MIN, EndOfVector = MIN+1,
   Reserved = MIN+2..MIN+7, Value from MIN+8; and converting back gives the same raw integer. *)
Theorem bcf_int_classify_spec : forall w n, wmin w <= n <= wmax w ->
  (n = wmin w /\ classify w n = IMissing) \/
  (n = wmin w + 1 /\ classify w n = IEov) \/
  (wmin w + 2 <= n <= wmin w + 7 /\ classify w n = IReserved n) \/
  (wmin w + 8 <= n /\ classify w n = IValue n).
Proof. exact classify_spec. Qed.
Print Assumptions bcf_int_classify_spec.

Theorem bcf_int_raw_of_classify : forall w n, raw_of w (classify w n) = n.
Proof. exact raw_of_classify. Qed.
Print Assumptions bcf_int_raw_of_classify.

(* the same, by exhaustive evaluation of the Int8 (256) and Int16 (65536) domains *)
Theorem bcf_int8_classify_exhaustive : forall n, -128 <= n <= 127 -> check_classify W8 n = true.
Proof. exact int8_classify_all. Qed.
Print Assumptions bcf_int8_classify_exhaustive.

Theorem bcf_int16_classify_exhaustive : forall n, -32768 <= n <= 32767 -> check_classify W16 n = true.
Proof. exact int16_classify_all. Qed.
Print Assumptions bcf_int16_classify_exhaustive.

(* For every i32 n >= -2^31+8 the INFO scalar writer picks a width whose value range (sentinels
   excluded) holds n, n is a Value there (never a sentinel), and reading the bytes back gives n;
   below -2^31+8 the writer returns Err(InvalidInput). *)
Theorem bcf_int_width_sound : forall n, -2147483640 <= n <= 2147483647 ->
  exists w bs,
    select_scalar n = Some w /\
    min_value w <= n <= wmax w /\
    classify w n = IValue n /\
    enc_info_int n = Ok bs /\
    dec_info_int bs = ROk (RInt n).
Proof. exact int_width_sound. Qed.
Print Assumptions bcf_int_width_sound.

Theorem bcf_int_below_min_is_error : forall n, n < -2147483640 -> enc_info_int n = ErrInput.
Proof. exact int_below_min_is_error. Qed.
Print Assumptions bcf_int_below_min_is_error.

(* the chosen width is the narrowest that can hold n *)
Theorem bcf_int_width_minimal : forall n w w', select_scalar n = Some w ->
  min_value w' <= n <= wmax w' -> (wbytes w <= wbytes w')%nat.
Proof. exact select_scalar_minimal. Qed.
Print Assumptions bcf_int_width_minimal.

(* Descriptor byte with overflow length: every type code, every length 0..2^31-1, any suffix. *)
Theorem bcf_descriptor_roundtrip : forall code len rest,
  valid_code code = true -> 0 <= len <= 2147483647 ->
  exists bs, enc_type code len = Ok bs /\ read_type (bs ++ rest) = Some (code, len, rest).
Proof. exact descriptor_roundtrip. Qed.
Print Assumptions bcf_descriptor_roundtrip.

Theorem bcf_descriptor_too_long_is_error : forall code len, 2147483647 < len -> enc_type code len = ErrInput.
Proof. exact enc_type_err. Qed.
Print Assumptions bcf_descriptor_too_long_is_error.

(* Per-sample Integer vectors (FORMAT, Number != 1): any number of samples, missing samples,
   missing entries, unequal lengths (padded with EndOfVector to the longest), values anywhere in
   -2^31+8..2^31-1, through the writer's own min/max scan and length computation.  Read back:
   the same vectors with their own lengths ([norm]: a vector that is exactly one missing entry
   is the VCF field `.`, i.e. the missing value).  Excluded: series in which no sample has an
   entry (max_len = 0) -- refuted below. *)
Theorem bcf_int_vector_roundtrip : forall vals,
  entries_within (-2147483640) 2147483647 vals ->
  (1 <= max_len vals)%nat -> Z.of_nat (max_len vals) <= 2147483647 ->
  exists bs, enc_fmt_ints vals = Ok bs /\
             dec_fmt_ints (length vals) bs = ROk (BVectors (map norm vals)).
Proof. exact fmt_int_vector_roundtrip. Qed.
Print Assumptions bcf_int_vector_roundtrip.

Theorem bcf_int_vector_below_min_is_error : forall vals vs n,
  In (Some vs) vals -> In (Some n) vs -> n < -2147483640 -> enc_fmt_ints vals = ErrInput.
Proof. exact fmt_int_vector_below_min_is_error. Qed.
Print Assumptions bcf_int_vector_below_min_is_error.

(* the decoder side for ANY fitting width and ANY common length (not only the writer's choice) *)
Theorem bcf_int_series_roundtrip_any_width : forall w m vals rest,
  (forall s, In s vals -> sample_fits w s) ->
  (forall s, In s vals -> (sample_len s <= m)%nat) -> (1 <= m)%nat ->
  dec_samples w (length vals) m
    (flat_map (fun s => flat_map (enc_int w) (sample_raws w m s)) vals ++ rest)
  = ROk (map norm vals).
Proof. exact series_roundtrip. Qed.
Print Assumptions bcf_int_series_roundtrip_any_width.

(* known finding fmt-int-vector-all-samples-missing: accepted by the writer, unreadable *)
Theorem bcf_int_vector_all_missing_refuted :
  exists vals bs, enc_fmt_ints vals = Ok bs /\ dec_fmt_ints (length vals) bs = RErr.
Proof. exact all_missing_series_refuted. Qed.
Print Assumptions bcf_int_vector_all_missing_refuted.

(* Floats: every 32-bit pattern outside the reserved NaNs 0x7f800001..0x7f800007 is read back
   bit for bit (the canonical NaN 0x7fc00000 and all other NaN payloads included). *)
Theorem bcf_float_roundtrip : forall b, 0 <= b < 4294967296 -> ~ reserved_nan b ->
  exists bs, enc_info_float b = Ok bs /\ dec_info_float bs = ROk (RFloat b).
Proof. exact float_roundtrip. Qed.
Print Assumptions bcf_float_roundtrip.

Theorem bcf_float_missing_pattern_refuted :
  exists b bs, enc_info_float b = Ok bs /\ dec_info_float bs = ROk RNone.
Proof. exact float_missing_pattern_refuted. Qed.
Print Assumptions bcf_float_missing_pattern_refuted.

(* Genotypes (partial): every representable allele -- index 0..62 with either phasing -- is
   encoded as (allele+1)<<1|phased in 0..127 and parsed back to the same allele and phasing.
   The series-level statement [genotype_roundtrip_full_statement] is FALSE for the model (and for
   the code): known findings gt-mixed-ploidy-padding and gt-missing-allele-phase-lost. *)
Theorem bcf_genotype_roundtrip_partial : forall p ph, 0 <= p <= 62 -> allele_ok (Some p, ph) = true.
Proof. exact allele_roundtrip. Qed.
Print Assumptions bcf_genotype_roundtrip_partial.

Theorem bcf_genotype_mixed_ploidy_refuted :
  exists gs bs, enc_gt gs = Ok bs /\ dec_gt (length gs) bs <> ROk (map Some gs).
Proof. exact genotype_mixed_ploidy_refuted. Qed.
Print Assumptions bcf_genotype_mixed_ploidy_refuted.

Theorem bcf_genotype_missing_phase_refuted :
  exists gs bs, enc_gt gs = Ok bs /\ dec_gt (length gs) bs <> ROk (map Some gs).
Proof. exact genotype_missing_phase_refuted. Qed.
Print Assumptions bcf_genotype_missing_phase_refuted.

Theorem bcf_genotype_full_statement_refuted : ~ genotype_roundtrip_full_statement.
Proof. exact genotype_refutes_full_statement. Qed.
Print Assumptions bcf_genotype_full_statement_refuted.

(* c10_partial: the composition for the modelled kinds.  What C10 states in full -- every record
   the writer accepts is read back as the same record, string-map indices included -- is covered
   beyond these kinds by the implementation-side oracle only. *)
Theorem c10_partial :
  (forall n, -2147483640 <= n <= 2147483647 ->
     exists bs, enc_info_int n = Ok bs /\ dec_info_int bs = ROk (RInt n)) /\
  (forall n, n < -2147483640 -> enc_info_int n = ErrInput) /\
  (forall vals, entries_within (-2147483640) 2147483647 vals ->
     (1 <= max_len vals)%nat -> Z.of_nat (max_len vals) <= 2147483647 ->
     exists bs, enc_fmt_ints vals = Ok bs /\
                dec_fmt_ints (length vals) bs = ROk (BVectors (map norm vals))) /\
  (forall b, 0 <= b < 4294967296 -> ~ reserved_nan b ->
     exists bs, enc_info_float b = Ok bs /\ dec_info_float bs = ROk (RFloat b)) /\
  (forall code len rest, valid_code code = true -> 0 <= len <= 2147483647 ->
     exists bs, enc_type code len = Ok bs /\ read_type (bs ++ rest) = Some (code, len, rest)).
Proof.
  split; [|split; [exact int_below_min_is_error|split; [exact fmt_int_vector_roundtrip|
    split; [exact float_roundtrip|exact descriptor_roundtrip]]]].
  intros n H. destruct (int_width_sound n H) as [w [bs [_ [_ [_ [E D]]]]]]. exists bs. split; assumption.
Qed.
Print Assumptions c10_partial.

(* non-vacuity *)
Example c10_examples :
  enc_info_int (-121) = Ok [18%N; 135%N; 255%N] /\            (* Int16: 0x12 0x87 0xff *)
  enc_info_int (-120) = Ok [17%N; 136%N] /\                   (* Int8:  0x11 0x88 *)
  enc_info_int 128 = Ok [18%N; 128%N; 0%N] /\
  enc_info_int (-2147483641) = ErrInput /\
  enc_info_ints [Some (-120); None; Some 127] = Ok [49%N; 136%N; 128%N; 127%N] /\
  dec_info_ints [49%N; 136%N; 128%N; 127%N] = ROk (RInts [Some (-120); None; Some 127]) /\
  max_len [Some [Some 1; None]; None; Some [Some 70000]] = 2%nat.
Proof. vm_compute. repeat split; reflexivity. Qed.

Example c10_series_example :
  exists bs, enc_fmt_ints [Some [Some 1; None; Some (-121)]; None; Some [Some 300]] = Ok bs /\
             dec_fmt_ints 3 bs = ROk (BVectors [Some [Some 1; None; Some (-121)]; None; Some [Some 300]]).
Proof. exact series_example. Qed.
