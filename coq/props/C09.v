(* C09 -- placeholder while proofs are being developed *)
From Coq Require Import List NArith ZArith Bool.
From NV Require Import Base.Percent Base.PercentProofs Text.TextBase Vcf.Values Vcf.Span Vcf.Record.
Import ListNotations.
Open Scope N_scope.

Theorem c09_pct_roundtrip_tmp : forall c s, bytes_ok s -> pct_dec (pct_enc (str_set c) s) = s.
Proof. intros c s H. apply pct_dec_enc; [destruct c; reflexivity|exact H]. Qed.
Print Assumptions c09_pct_roundtrip_tmp.
