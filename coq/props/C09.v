(* C09 -- VCF records and headers round-trip through text; lazy and eager views agree.
   (partial by design: the theorems cover INFO fields, sample columns, genotypes and the
   span-relevant fields of a record on the Gallina models NV.Vcf.{Values,Span,Record}; the fixed
   columns, whole-record assembly and headers are covered by the implementation-side oracle only.)
   Floats: Rust's f32 Display / str::parse::<f32> are the oracle pair (fmt_float, prs_float),
   universally quantified, with the premises listed in each theorem (FOK selects the bit patterns
   the pair round-trips: every non-NaN value and the canonical NaN). *)
From Coq Require Import List NArith ZArith Bool.
From NV Require Import Base.Percent Base.PercentProofs Text.TextBase Vcf.Values Vcf.ValuesProofs
  Vcf.GenotypeProofs Vcf.SampleProofs Vcf.Span Vcf.Record Vcf.SpanProofs Vcf.Line Vcf.LineProofs Vcf.Header Vcf.HeaderProofs
  Vcf.LazyRec Vcf.LazyRecProofs Vcf.FrameProofs Vcf.LazyFileProofs Vcf.LazyAgreeProofs Vcf.File Vcf.FileProofs
  Vcf.HdrFrameProofs Vcf.FileStop Vcf.FileStopProofs Vcf.FileValsProofs.
Import ListNotations.
Open Scope N_scope.

(* the writers' escape sets are what the specification lists (all 256 bytes) *)
Theorem c09_encode_sets : forall b, b < 256 ->
  (str_set CInfo b = true <-> (b < 32 \/ b = 127 \/ 128 <= b \/ b = 37 \/ b = 44 \/ b = 59 \/ b = 61)) /\
  (str_set CFormat b = true <-> (b < 32 \/ b = 127 \/ 128 <= b \/ b = 37 \/ b = 44 \/ b = 58)).
Proof. exact encode_sets_spec. Qed.
Print Assumptions c09_encode_sets.

(* Strings: any byte string (also the lone "."), INFO or FORMAT, either reader; the text never
   is "." and contains none of ',' TAB LF (nor ';' '=' in INFO, ':' in FORMAT) *)
Theorem vcf_string_roundtrip : forall prs c lazy s, bytes_ok s ->
  parse_value prs lazy (NCount 1) TString (write_string c s) = Some (VString s) /\
  write_string c s <> dot /\
  ~ In 44 (write_string c s) /\ ~ In 9 (write_string c s) /\ ~ In 10 (write_string c s) /\
  match c with
  | CInfo => ~ In 59 (write_string c s) /\ ~ In 61 (write_string c s)
  | CFormat => ~ In 58 (write_string c s)
  end.
Proof. exact string_roundtrip. Qed.
Print Assumptions vcf_string_roundtrip.

(* INFO field key=value / key / key=. for every (Number, Type), arrays with missing entries,
   either reader, every ASCII Character included (also those the writer percent-encodes). *)
Theorem vcf_info_value_roundtrip :
  forall fmt_float prs_float (FOK : N -> Prop),
  (forall b, FOK b -> prs_float (fmt_float b) = Some b) ->
  (forall b x, FOK b -> In x (fmt_float b) -> x <> 44 /\ x <> 9 /\ x <> 10 /\ x <> 59 /\ x <> 58) ->
  (forall b, FOK b -> fmt_float b <> dot) ->
  (forall b, FOK b -> fmt_float b <> []) ->
  forall lazy num ty key ov t,
  ~ In 61 key ->
  match ov with Some v => val_ok FOK v /\ typed num ty v | None => True end ->
  write_info_field fmt_float key ov = Some t ->
  parse_info_field prs_float lazy num ty t = Some ov.
Proof. exact info_field_roundtrip. Qed.
Print Assumptions vcf_info_value_roundtrip.

Theorem vcf_sample_value_roundtrip :
  forall fmt_float prs_float (FOK : N -> Prop),
  (forall b, FOK b -> prs_float (fmt_float b) = Some b) ->
  (forall b x, FOK b -> In x (fmt_float b) -> x <> 44 /\ x <> 9 /\ x <> 10 /\ x <> 59 /\ x <> 58) ->
  (forall b, FOK b -> fmt_float b <> dot) ->
  (forall b, FOK b -> fmt_float b <> []) ->
  forall lazy v44 d o t,
  match o with Some v => sval_ok FOK v44 d v | None => True end ->
  one_text fmt_float v44 o = Some t ->
  parse_sample_value prs_float lazy d t = Some (option_map (norm_value v44) o).
Proof. exact sample_value_roundtrip. Qed.
Print Assumptions vcf_sample_value_roundtrip.

(* Genotypes of any ploidy >= 1, any mix of phasing, missing alleles: from VCF 4.4 exactly; before
   4.4 the first allele's phasing is not written and comes back as the readers derive it *)
Theorem vcf_genotype_roundtrip : forall g, gt_ok g ->
  parse_genotype (write_genotype true g) = Some g /\
  parse_genotype_lazy (write_genotype true g) = Some g /\
  parse_genotype (write_genotype false g) = Some (normalize_first g) /\
  parse_genotype_lazy (write_genotype false g) = Some (normalize_first g).
Proof.
  intros g H. repeat split;
    [apply genotype_roundtrip_v44|apply genotype_lazy_roundtrip_v44
    |apply genotype_roundtrip_pre44|apply genotype_lazy_roundtrip_pre44]; exact H.
Qed.
Print Assumptions vcf_genotype_roundtrip.

(* Record level, partial: a whole sample column (values fitting a prefix of the FORMAT keys,
   trailing values dropped) read by either reader.  Together with vcf_info_value_roundtrip this
   covers the typed columns of a record; the fixed columns and the TAB assembly are not proved. *)
Theorem c09_record_roundtrip_partial :
  forall fmt_float prs_float (FOK : N -> Prop),
  (forall b, FOK b -> prs_float (fmt_float b) = Some b) ->
  (forall b x, FOK b -> In x (fmt_float b) -> x <> 44 /\ x <> 9 /\ x <> 10 /\ x <> 59 /\ x <> 58) ->
  (forall b, FOK b -> fmt_float b <> dot) ->
  (forall b, FOK b -> fmt_float b <> []) ->
  forall (lazy : bool) v44 ds vs s,
  fits FOK v44 ds vs -> vs <> [] ->
  write_sample fmt_float v44 vs = Some s -> s <> [] -> s <> dot ->
  (if lazy then parse_sample_lazy prs_float ds s else parse_sample_eager prs_float ds s)
  = Some (map (option_map (norm_value v44)) vs).
Proof. exact sample_column_roundtrip. Qed.
Print Assumptions c09_record_roundtrip_partial.

(* The whole record LINE (NV.Vcf.Line: write_record with all eight fixed columns, FORMAT keys and
   sample columns; parse_record_buf; the lazy vcf::Record with every accessor forced).  Every
   record of rec_ok that the writer accepts is read back by BOTH readers as canon of the record
   (REF bases resolved the way the writer resolves them, first genotype phasing derived before
   4.4, a sample that is "." as a whole read as a sample without values), the line is
   outside the class of the former lazy-reader panic, and the re-read record has the written record's span.
   rec_ok lists what the writer does not check itself: IDs non-empty / not the lone "." / distinct,
   REF non-empty, ALT and FILTER not [""] or ["."], QUAL in FOK, INFO keys distinct and values of
   the key's effective definition (or Flag / String under an undefined key), the sample count of
   the header, FORMAT keys distinct, values fitting a prefix of the keys and no sample
   written as an empty column.  The witnesses below show these conditions are needed. *)
Theorem c09_record_line_roundtrip :
  forall fmt_float prs_float (FOK : N -> Prop),
  (forall b, FOK b -> prs_float (fmt_float b) = Some b) ->
  (forall b x, FOK b -> In x (fmt_float b) -> x <> 44 /\ x <> 9 /\ x <> 10 /\ x <> 59 /\ x <> 58) ->
  (forall b, FOK b -> fmt_float b <> dot) ->
  (forall b, FOK b -> fmt_float b <> []) ->
  forall h r t,
  rec_ok fmt_float FOK h r -> write_line fmt_float h r = Some t ->
  read_eager prs_float h t = Some (canon h r) /\
  read_lazy prs_float h t = Some (canon h r) /\
  lazy_cr_class t = false.
Proof. exact line_roundtrip. Qed.
Print Assumptions c09_record_line_roundtrip.

Theorem c09_record_line_span :
  forall fmt_float prs_float (FOK : N -> Prop),
  (forall b, FOK b -> prs_float (fmt_float b) = Some b) ->
  (forall b x, FOK b -> In x (fmt_float b) -> x <> 44 /\ x <> 9 /\ x <> 10 /\ x <> 59 /\ x <> 58) ->
  (forall b, FOK b -> fmt_float b <> dot) ->
  (forall b, FOK b -> fmt_float b <> []) ->
  forall h r t v45,
  rec_ok fmt_float FOK h r -> write_line fmt_float h r = Some t ->
  exists re rl, read_eager prs_float h t = Some re /\ read_lazy prs_float h t = Some rl /\ re = rl /\
    rec_end v45 re = rec_end v45 r /\ rec_span v45 re = rec_span v45 r /\
    rec_end v45 rl = rec_end v45 r /\ rec_span v45 rl = rec_span v45 r.
Proof. exact line_span_roundtrip. Qed.
Print Assumptions c09_record_line_span.

(* canon is the identity on records whose REF is made of A C G T N (either case), whose samples
   are not the single missing value, and (before 4.4) whose genotypes carry the derived first
   phasing: what canon changes, exactly *)
Theorem c09_canon_spec : forall h r,
  r_chrom (canon h r) = r_chrom r /\ r_pos (canon h r) = r_pos r /\ r_ids (canon h r) = r_ids r /\
  r_ref (canon h r) = map canon_base (r_ref r) /\ r_alts (canon h r) = r_alts r /\
  r_qual (canon h r) = r_qual r /\ r_filters (canon h r) = r_filters r /\
  r_info (canon h r) = r_info r /\ r_keys (canon h r) = r_keys r /\
  r_samples (canon h r) = map (canon_row (h_v44 h)) (r_samples r).
Proof. intros. repeat split. Qed.
Print Assumptions c09_canon_spec.

(* records the writer accepts outside rec_ok (vm_compute witnesses, each reproduced on the
   implementation by `line` cases): an ID "." comes back as no ID and REF "R" as "A"; an empty REF
   is written as an empty column that the eager reader rejects while the lazy record returns it *)
Theorem c09_line_witnesses :
  (exists r t, write_line w_fmt (h0 0) r = Some t /\ r_ids r = [dot] /\
     read_eager w_prs (h0 0) t = Some r0 /\ read_lazy w_prs (h0 0) t = Some r0) /\
  (exists r t, write_line w_fmt (h0 0) r = Some t /\
     read_eager w_prs (h0 0) t = None /\ read_lazy w_prs (h0 0) t = Some r).
Proof.
  split.
  - destruct witness_id_dot as (t & A & B & C). eexists; exists t.
    split; [exact A|]. split; [reflexivity|]. split; assumption.
  - destruct witness_empty_ref as (t & A & B & C). eexists; exists t.
    split; [exact A|]. split; assumption.
Qed.
Print Assumptions c09_line_witnesses.

(* REUSED BUFFERS: read_record_buf into a RecordBuf that still holds the previous record (also the
   record_bufs() iterator) returns what a fresh buffer returns, whatever the buffer held: the
   model threads the previous record's sample vectors through parse_samples (clear every vector,
   resize to the header's sample count, push) -- so the line theorems above also hold record by
   record for a whole file.  (The lazy Record clears its text buffer at the start of read_record;
   its reuse is covered by the `multi` oracle.) *)
Theorem c09_reused_recordbuf_independent : forall prs_float prev h line,
  read_eager_into prs_float prev h line = read_eager prs_float h line.
Proof. exact reused_recordbuf_independent. Qed.
Print Assumptions c09_reused_recordbuf_independent.

(* the buffer state is really in the model: without the clearing step the previous values would
   stay under a "." sample (the seeded-defect class the `multi` cases detect) *)
Example c09_reused_buffer_state_matters :
  let prev := [[Some (VInteger 7%Z)]] in
  e_rows_into w_prs prev [FDef (NCount 1) TInteger] [dot] = Some [[Some (VInteger 7%Z)]] /\
  e_rows_into w_prs (map (fun _ => []) prev) [FDef (NCount 1) TInteger] [dot] = Some [[]].
Proof. split; reflexivity. Qed.

(* THE LAZY RECORD NEVER PANICS (NV.Vcf.LazyRec: read_record / read_field / read_line on the whole
   remaining input, the eight bounds it stores, one `&buf[range]` per accessor of Fields, the
   views of NV.Vcf.Line above them).  For EVERY byte string (any number of lines, CR anywhere, a
   last line without LF, fewer than eight columns, invalid UTF-8 -- [valid] is any predicate),
   every float parser and every header: a read_record that returns Ok leaves eight nondecreasing
   bounds that end inside the buffer, has consumed exactly n bytes, and no accessor reaches a
   slice out of range (LPanic is not a possible outcome of read + every accessor forced). *)
Theorem c09_lazy_read_bounds : forall valid text n buf ends rest,
  rd_record valid text = ROk n buf ends rest ->
  length ends = 8%nat /\ chain 0 ends (length buf) /\ (n + length rest = length text)%nat.
Proof. exact rd_record_bounds. Qed.
Print Assumptions c09_lazy_read_bounds.

Theorem c09_lazy_never_panics : forall valid prs_float h text,
  lazy_run prs_float valid h text <> LPanic /\
  ~ In LPanic (lazy_records prs_float valid h text).
Proof. intros. split; [apply lazy_never_panics|apply lazy_records_never_panic]. Qed.
Print Assumptions c09_lazy_never_panics.

(* non-vacuity: the former panic class `...PASS<CR><TAB><LF>` is read Ok, with the CR kept in the
   FILTER column, and a second record follows in the same reused Record *)
Example c09_lazy_bounds_example :
  let text := [115; 9; 53; 9; 46; 9; 65; 9; 46; 9; 46; 9; 80; 13; 9; 10;  115; 9; 54] in
  rd_record (fun _ => true) text = ROk 16 [115; 53; 46; 65; 46; 46; 80; 13] [1; 2; 3; 4; 5; 6; 8; 8]%nat [115; 9; 54] /\
  rd_record (fun _ => true) [115; 9; 54] = ROk 3 [115; 54] [1; 2; 2; 2; 2; 2; 2; 2]%nat [].
Proof. vm_compute. split; reflexivity. Qed.

(* LINE FRAMING (formerly only tested): a written line contains neither LF nor CR -- one more
   premise on the float oracle: no CR in the text of a float -- so the terminator the writer
   appends (LF; also CR LF) is removed by the readers' framing exactly where it was put, and the
   line theorem holds for the text WITH its terminator, whatever follows it in the file *)
Theorem c09_written_line_framing :
  forall fmt_float (FOK : N -> Prop),
  (forall b x, FOK b -> In x (fmt_float b) -> x <> 10 /\ x <> 13) ->
  forall h r t rest,
  rec_ok fmt_float FOK h r -> write_line fmt_float h r = Some t ->
  ~ In 10 t /\ ~ In 13 t /\ frame (t ++ 10 :: rest) = t /\ frame (t ++ 13 :: 10 :: rest) = t.
Proof.
  intros fmt FOK He h r t rest Hok Hw.
  destruct (written_line_frames fmt FOK He h r t rest Hok Hw) as [A B].
  split; [apply (written_line_no_eol fmt FOK He h r t 10 Hok Hw); now left|].
  split; [apply (written_line_no_eol fmt FOK He h r t 13 Hok Hw); now right|]. split; assumption.
Qed.
Print Assumptions c09_written_line_framing.

Theorem c09_record_text_roundtrip :
  forall fmt_float prs_float (FOK : N -> Prop),
  (forall b, FOK b -> prs_float (fmt_float b) = Some b) ->
  (forall b x, FOK b -> In x (fmt_float b) -> x <> 44 /\ x <> 9 /\ x <> 10 /\ x <> 59 /\ x <> 58) ->
  (forall b, FOK b -> fmt_float b <> dot) ->
  (forall b, FOK b -> fmt_float b <> []) ->
  (forall b x, FOK b -> In x (fmt_float b) -> x <> 13) ->
  forall h r t rest,
  rec_ok fmt_float FOK h r -> write_line fmt_float h r = Some t ->
  read_eager_text prs_float h (t ++ 10 :: rest) = Some (canon h r) /\
  read_lazy_text prs_float h (t ++ 10 :: rest) = Some (canon h r) /\
  read_eager_text prs_float h (t ++ 13 :: 10 :: rest) = Some (canon h r) /\
  read_lazy_text prs_float h (t ++ 13 :: 10 :: rest) = Some (canon h r).
Proof.
  intros fmt prs FOK H1 H2 H3 H4 H5 h r t rest Hok Hw.
  destruct (line_roundtrip fmt prs FOK H1 H2 H3 H4 h r t Hok Hw) as (A & B & _).
  destruct (written_line_frames fmt FOK (float_eol fmt FOK H2 H5) h r t rest Hok Hw) as [F1 F2].
  unfold read_eager_text, read_lazy_text. rewrite F1, F2. repeat split; assumption.
Qed.
Print Assumptions c09_record_text_roundtrip.

(* THE FILE, lazy reader, at the level of the record BUFFER and BOUNDS: rec_ok records written
   line by line (each line + LF) and read back with read_record into ONE reused lazy Record until
   Ok(0): every call returns Ok with its line's byte count, the forced accessors give canon of
   the written record, and the last call is Ok(0).  [valid] (UTF-8 validation) must accept the
   byte strings made of bytes of the file (true of the crate's check when the lines are ASCII;
   written lines are valid UTF-8 whenever the record's texts are) *)
Theorem c09_lazy_file_roundtrip :
  forall fmt_float prs_float (FOK : N -> Prop),
  (forall b, FOK b -> prs_float (fmt_float b) = Some b) ->
  (forall b x, FOK b -> In x (fmt_float b) -> x <> 44 /\ x <> 9 /\ x <> 10 /\ x <> 59 /\ x <> 58) ->
  (forall b, FOK b -> fmt_float b <> dot) ->
  (forall b, FOK b -> fmt_float b <> []) ->
  (forall b x, FOK b -> In x (fmt_float b) -> x <> 13) ->
  forall valid h rs ts,
  Forall2 (fun r t => rec_ok fmt_float FOK h r /\ write_line fmt_float h r = Some t) rs ts ->
  (forall s, (forall b, In b s -> b = 10 \/ exists t, In t ts /\ In b t) -> valid s = true) ->
  exists l, lazy_records prs_float valid h (concat (map (fun t => t ++ [10]) ts)) = l ++ [LEof] /\
            map lres_view l = map (fun r => Some (Some (canon h r))) rs.
Proof. exact lazy_file_roundtrip. Qed.
Print Assumptions c09_lazy_file_roundtrip.

(* the bounds-level reader on ANY line with at least eight columns and no LF / CR, followed by LF
   and anything: Ok(length + 1) and the forced views are NV.Vcf.Line.read_lazy of the line (the
   model the line theorems are about) *)
Theorem c09_lazy_bounds_agree_framed : forall valid prs_float h t rest,
  ~ In 10 t -> ~ In 13 t -> (8 <= length (split_all 9 t))%nat ->
  (forall s, (forall b, In b s -> In b (t ++ [10])) -> valid s = true) ->
  exists f, lazy_run prs_float valid h (t ++ 10 :: rest) = LRec (S (length t)) f (read_lazy prs_float h t) rest.
Proof. exact lazy_run_framed. Qed.
Print Assumptions c09_lazy_bounds_agree_framed.

(* ... and for EVERY text that contains an LF (formerly c09_lazy_bounds_agree_full_statement, only
   tested): CR anywhere in the line, fewer than eight columns, empty columns, anything after the
   LF -- the bounds-level reader (read_record + every accessor forced) is Err exactly when
   NV.Vcf.Line.read_lazy of the framed line is Err for lack of columns, and otherwise returns the
   record of read_lazy (or its accessor error), having consumed the line and its LF.  [valid] must
   accept the byte strings made of bytes of the text (UTF-8 errors are the other way to Err: they
   are compared with the implementation by the lzb cases). *)
Theorem c09_lazy_bounds_agree : forall valid prs_float h text,
  (forall s, (forall b, In b s -> In b text) -> valid s = true) -> mem 10 text = true ->
  match lazy_run prs_float valid h text with
  | LRec n f r rest =>
      r = read_lazy prs_float h (frame text) /\
      n = S (length (take_until 10 text)) /\ rest = skipn n text
  | LErr => read_lazy prs_float h (frame text) = None
  | _ => False
  end.
Proof. exact lazy_bounds_agree_rest. Qed.
Print Assumptions c09_lazy_bounds_agree.

(* THE FILE (formerly c09_file_roundtrip_full_statement): a header and records written into ONE
   text by write_header + write_variant_record, read back by read_header (the line splitting of
   NV.Io.HeaderRead.hdr_closed -- the closed form property C12 proves the delivered reader equal
   to -- with LF / CR LF stripped, the header parser WITH the reserved-definition check) and then
   record by record by BOTH readers: the eager loop through ONE reused RecordBuf and the lazy
   loop through ONE reused Record at the level of buffer and bounds, each until Ok(0).  The
   lookup tables of the record readers are COMPUTED from the parsed header (hctx_of_header: the
   header's INFO / FORMAT lines first, then the crate-private reserved-key table of the file
   format, VCF 4.3 / 4.4 / 4.5; GT before 4.4 by the file format's order).  Both readers return
   the header and canon of every record, and end with Ok(0).
   Premises: header_ok (as in c09_header_roundtrip); hdr_defs_ok (an INFO / FORMAT line whose ID
   is a reserved key carries the reserved Number and Type -- otherwise read_header is an error:
   c09_file_witnesses); hdr_vals_framed (a condition on the header VALUE, equivalent to "no LF inside
   and no CR at the end of a written header line": c09_header_framed_values); rec_ok of every record
   under the COMPUTED tables; [valid] accepts the byte strings made of bytes of the file.
   The readers are those of the crate as the model switch header_stops_at_chrom_line stands (on
   since ae9f807: read_header stops after the #CHROM line), so there is NO condition on the first
   record's CHROM any more (former defect file-first-record-chrom-hash-read-as-header-line:
   c09_file_first_chrom_hash, c09_file_first_chrom_hash_stop). *)
Theorem c09_file_roundtrip :
  forall fmt_float prs_float (FOK : N -> Prop),
  (forall b, FOK b -> prs_float (fmt_float b) = Some b) ->
  (forall b x, FOK b -> In x (fmt_float b) -> x <> 44 /\ x <> 9 /\ x <> 10 /\ x <> 59 /\ x <> 58) ->
  (forall b, FOK b -> fmt_float b <> dot) ->
  (forall b, FOK b -> fmt_float b <> []) ->
  (forall b x, FOK b -> In x (fmt_float b) -> x <> 13) ->
  forall valid hd rs text,
  header_ok hd -> hdr_defs_ok hd = true -> hdr_vals_framed hd ->
  Forall (rec_ok fmt_float FOK (hctx_of_header hd)) rs ->
  (forall s, (forall b, In b s -> In b text) -> valid s = true) ->
  write_file fmt_float hd rs = Some text ->
  read_file_eager_cur prs_float valid text = Some (hd, (map (canon (hctx_of_header hd)) rs, true)) /\
  read_file_lazy_cur prs_float valid text =
    Some (hd, (map (fun r => Some (canon (hctx_of_header hd) r)) rs, true)).
Proof. exact file_roundtrip_cur_vals. Qed.
Print Assumptions c09_file_roundtrip.

(* the same about the FORMER header reader (model switch off: every line starting with '#' is a
   header line, /repo before ae9f807), where the premise first_chrom_ok was needed and the framing
   premise was stated on the written lines (header_framed; see c09_header_framed_values) *)
Theorem c09_file_roundtrip_former_reader :
  forall fmt_float prs_float (FOK : N -> Prop),
  (forall b, FOK b -> prs_float (fmt_float b) = Some b) ->
  (forall b x, FOK b -> In x (fmt_float b) -> x <> 44 /\ x <> 9 /\ x <> 10 /\ x <> 59 /\ x <> 58) ->
  (forall b, FOK b -> fmt_float b <> dot) ->
  (forall b, FOK b -> fmt_float b <> []) ->
  (forall b x, FOK b -> In x (fmt_float b) -> x <> 13) ->
  forall valid hd rs text,
  header_ok hd -> hdr_defs_ok hd = true -> header_framed hd ->
  Forall (rec_ok fmt_float FOK (hctx_of_header hd)) rs -> first_chrom_ok rs ->
  (forall s, (forall b, In b s -> In b text) -> valid s = true) ->
  write_file fmt_float hd rs = Some text ->
  read_file_eager prs_float valid text = Some (hd, (map (canon (hctx_of_header hd)) rs, true)) /\
  read_file_lazy prs_float valid text =
    Some (hd, (map (fun r => Some (canon (hctx_of_header hd) r)) rs, true)).
Proof. exact file_roundtrip. Qed.
Print Assumptions c09_file_roundtrip_former_reader.

(* non-vacuity and the role of the reserved table: a 4.3 file whose records use INFO AC and FORMAT
   DP without header lines for them is read back by both readers (AC as an Integer array: the
   reserved definition); under 4.2 the same key has no definition; a header line that contradicts
   the reserved definition (INFO AC Number=1 under 4.3) is written, parsed by the bare grammar,
   and rejected by the reserved-definition check -- under 4.2 it is accepted *)
Theorem c09_file_witnesses :
  (exists hd rs text, write_file w_fmt hd rs = Some text /\ length rs = 2%nat /\
     read_file_eager w_prs (fun _ => true) text = Some (hd, (rs, true)) /\
     read_file_lazy w_prs (fun _ => true) text = Some (hd, (map Some rs, true)) /\
     assoc [65; 67] (h_infos (hctx_of_header hd)) = Some (NOther, TInteger) /\
     hdr_defs_ok hd = true) /\
  (exists hd ls, write_header hd = Some ls /\ parse_header ls = Some hd /\ parse_header_chk ls = None) /\
  (exists hd ls, write_header hd = Some ls /\ parse_header_chk ls = Some hd /\ hh_ff hd = (4, 2) /\
     exists m, hh_infos hd = [m] /\ m_id m = [65; 67] /\ m_num m = Some (HCount 1)).
Proof.
  split; [|split].
  - pose proof witness_file as W. cbv zeta in W. destruct W as (text & A & B & C & D & _ & F).
    exists (x_hdr (4, 3)), [x_rec [99]; x_rec [99; 50]], text.
    split; [exact A|]. split; [reflexivity|]. split; [exact B|]. split; [exact C|]. split; [exact D|exact F].
  - pose proof witness_reserved_mismatch as W. cbv zeta in W. destruct W as ((ls & A & B & C) & _).
    eexists; exists ls. split; [exact A|]. split; [exact B|exact C].
  - pose proof witness_reserved_mismatch as W. cbv zeta in W. destruct W as (_ & (ls & A & B)).
    eexists; exists ls. split; [exact A|]. split; [exact B|]. split; [reflexivity|].
    eexists. split; [reflexivity|]. split; reflexivity.
Qed.
Print Assumptions c09_file_witnesses.

(* FORMER DEFECT file-first-record-chrom-hash-read-as-header-line (repaired in ae9f807), kept as a
   statement about the FORMER reader model (switch off): a first record whose CHROM starts with '#'
   is accepted by the writer and its line was consumed by read_header as a header line, so that
   neither reader got the file back; with the switch on it is read back
   (c09_file_first_chrom_hash_stop) *)
Theorem c09_file_first_chrom_hash :
  exists hd rs text, write_file w_fmt hd rs = Some text /\
    (exists r tl, rs = [r] /\ r_chrom r = 35 :: tl) /\
    read_file_eager w_prs (fun _ => true) text = None /\
    read_file_lazy w_prs (fun _ => true) text = None.
Proof.
  pose proof witness_first_chrom_hash as W. cbv zeta in W. destruct W as (text & A & B & C).
  exists (x_hdr (4, 3)), [x_rec [35; 99]], text. split; [exact A|]. split; [|split; assumption].
  eexists; eexists. split; reflexivity.
Qed.
Print Assumptions c09_file_first_chrom_hash.

(* FORMER DEFECT lazy-samples-dropped-format-missing (repaired, 6449b9b): samples without FORMAT keys
   are written ". . ."; the lazy record used to return no samples.  Now such records are inside
   rec_ok (no condition on the keys is left) and come back from both readers: an instance of
   c09_record_line_roundtrip, stated for itself, with the former witness as an example *)
Theorem c09_format_missing_roundtrip :
  forall fmt_float prs_float (FOK : N -> Prop),
  (forall b, FOK b -> prs_float (fmt_float b) = Some b) ->
  (forall b x, FOK b -> In x (fmt_float b) -> x <> 44 /\ x <> 9 /\ x <> 10 /\ x <> 59 /\ x <> 58) ->
  (forall b, FOK b -> fmt_float b <> dot) ->
  (forall b, FOK b -> fmt_float b <> []) ->
  forall h r t,
  rec_ok fmt_float FOK h r -> r_keys r = [] -> write_line fmt_float h r = Some t ->
  read_eager prs_float h t = Some (canon h r) /\ read_lazy prs_float h t = Some (canon h r) /\
  r_keys (canon h r) = [] /\ length (r_samples (canon h r)) = length (r_samples r).
Proof.
  intros fmt prs FOK H1 H2 H3 H4 h r t Hok Hk Hw.
  destruct (line_roundtrip fmt prs FOK H1 H2 H3 H4 h r t Hok Hw) as (A & B & _).
  repeat split; try assumption. cbn. now rewrite map_length.
Qed.
Print Assumptions c09_format_missing_roundtrip.

Example c09_format_missing_example :
  exists r t, write_line w_fmt (h0 2) r = Some t /\ length (r_samples r) = 2%nat /\ r_keys r = [] /\
    read_eager w_prs (h0 2) t = Some r /\ read_lazy w_prs (h0 2) t = Some r.
Proof.
  destruct witness_format_missing as (t & A & B & C). eexists; exists t.
  split; [exact A|]. split; [reflexivity|]. split; [reflexivity|]. split; assumption.
Qed.

(* FORMER DEFECT lazy-record-cr-before-empty-last-column-panic (repaired, fb10cd9): a line whose INFO
   column ends with CR and is followed by TAB LF made the lazy record's accessors panic.  The
   model of the repaired reader has no such outcome for any text (read_lazy_text is total into
   option: Err or a record); the former witness is now an example of the correct result, for LF
   and for CR LF, equal to the eager reader's; a recurrence shows as a model/implementation
   mismatch and as the oracle tag of the same name *)
Example c09_lazy_cr_class_reads :
  exists line r, lazy_cr_class line = true /\
    read_lazy_text w_prs (h0 0) (line ++ [10]) = Some r /\
    read_lazy_text w_prs (h0 0) (line ++ [13; 10]) = Some r /\
    read_eager_text w_prs (h0 0) (line ++ [10]) = Some r.
Proof. eexists; eexists. exact witness_lazy_cr_class. Qed.

(* VCF 4.5 span: exactly where INFO SVLEN decides the end (the input class of the known finding
   vcf45-svlen-end-one-base-short-of-spec, property C04): without FORMAT LEN and with largest
   SVLEN entry m the end is start + max(|REF|, m) - 1 -- start + m - 1 when m >= |REF|, the REF
   end when m < |REF|; before 4.5 SVLEN never enters variant_end *)
Theorem c09_v45_svlen_span : forall r l m,
  si_reflen r <> 0 -> si_svlen r = Some (Some (VIntArr l)) -> max_lens l None = Ok (Some m) ->
  si_len r = None -> start_of r + (N.max (si_reflen r) m - 1) <= usize_max ->
  variant_end true r = Ok (start_of r + (N.max (si_reflen r) m - 1)) /\
  (si_reflen r <= m -> variant_end true r = Ok (start_of r + (m - 1))) /\
  (m < si_reflen r -> variant_end true r = Ok (start_of r + (si_reflen r - 1))).
Proof. exact v45_end_svlen. Qed.
Print Assumptions c09_v45_svlen_span.

(* the remaining full statement: over ALL records the writer accepts (c09_record_line_roundtrip
   proves it for rec_ok; c09_line_witnesses shows it fails outside) and with the header as a
   parsed value rather than the lookup tables of hctx *)
Definition c09_record_roundtrip_full_statement
  (header record text : Type) (consistent : header -> record -> Prop)
  (write_record : header -> record -> option text)
  (read_eager read_lazy : header -> text -> option record)
  (span : header -> record -> res N) : Prop :=
  forall h r t, consistent h r -> write_record h r = Some t ->
    read_eager h t = Some r /\ read_lazy h t = Some r /\
    (forall r', read_lazy h t = Some r' -> span h r' = span h r).

(* HEADER (NV.Vcf.Header: fileformat, INFO/FORMAT/FILTER/ALT/contig map lines, unstructured ##key=value
   lines, the #CHROM line; writer and parser compared with the implementation on generated headers
   and on arbitrary header text).  Proved: the value grammar, the field loop and every typed map
   line, and their composition into the whole header (c09_header_roundtrip). *)

(* any byte string written as a quoted value (backslash before backslash and quote) is read back,
   whatever follows the closing quote *)
Theorem c09_header_string_roundtrip : forall s rest, p_value (w_hstring s ++ rest) = Some (s, rest).
Proof. exact p_value_hstring. Qed.
Print Assumptions c09_header_string_roundtrip.

(* the field loop of a map line <k=v,k="v",...> : keys without '=' (not starting with '>'), raw
   values without ',' '>' and not starting with a quote, quoted values arbitrary; what follows the
   closing '>' is ignored *)
Theorem c09_header_fields_roundtrip : forall fs rest, fs <> [] -> Forall wf_ok fs ->
  p_map_fields (60 :: join 44 (map wf_text fs) ++ 62 :: rest) =
  Some (map (fun f => (wf_key f, wf_val f)) fs).
Proof. exact p_map_fields_write. Qed.
Print Assumptions c09_header_fields_roundtrip.

(* every INFO / FORMAT / FILTER / ALT / contig line: the written map (ID, Number, Type, Description,
   length, md5, URL, other fields in insertion order, IDX) is parsed back to the same map.  map_ok:
   ID / md5 / URL are raw-safe, the tags the kind requires are present and the others absent,
   Number is a count <= usize::MAX or A R G '.' (for FORMAT also LA LR LG P M), a FORMAT Type is not Flag, length and IDX fit
   usize, other keys are distinct, contain no '=', do not start with '>' and are not standard tags
   of the kind (their values are arbitrary bytes) *)
Theorem c09_header_map_line_roundtrip : forall k m rest, map_ok k m ->
  p_map k (60 :: join 44 (map_fields k m) ++ 62 :: rest) = Some m.
Proof. exact map_line_roundtrip. Qed.
Print Assumptions c09_header_map_line_roundtrip.

(* FORMER DEFECT header-format-number-la-lr-lg-p-m-unparsable (repaired, 3f7219b): the FORMAT numbers
   LA / LR / LG / P / M are written and now parsed back (they are inside map_ok for FORMAT, so
   c09_header_map_line_roundtrip covers them); for INFO the same texts stay invalid *)
Theorem c09_header_format_number_local_roundtrip : forall n, In n [HLA; HLR; HLG; HP; HM] ->
  p_num KFormat (num_text n) = Some n /\ p_num KInfo (num_text n) = None.
Proof. exact format_number_local. Qed.
Print Assumptions c09_header_format_number_local_roundtrip.

Example c09_header_format_number_local_example :
  p_map KFormat (60 :: join 44 (map_fields KFormat m_la) ++ [62]) = Some m_la /\ m_num m_la = Some HLA.
Proof. split; [exact (proj1 witness_format_number_local)|reflexivity]. Qed.

(* parse -> write is NOT a fixed point of header text (field order, '+' in numbers and text after
   '>' are normalised); the rewritten text is a fixed point *)
Theorem c09_header_parse_write_fixed_point_refuted :
  exists ls ls' h, parse_header ls = Some h /\ write_header h = Some ls' /\ ls' <> ls /\
                   parse_header ls' = Some h.
Proof.
  destruct witness_parse_write_not_fixed as (h & A & B & C & D).
  exists hw_lines_in, hw_lines_out, h. repeat split; assumption.
Qed.
Print Assumptions c09_header_parse_write_fixed_point_refuted.

(* THE WHOLE HEADER: write -> parse identity for every header_ok header the writer accepts (file
   format numbers < 2^32; per kind map_ok maps with distinct IDs; unstructured groups with
   distinct keys that are none of the standard keys / META / PEDIGREE and contain no '=', at
   least one value each, no value that the parser takes for a structured record (from 4.3 the
   writer itself rejects values starting with '<'; before 4.3: not '<...ID=...'); sample names
   without TAB and distinct).  From wave 8 header_ok also admits STRUCTURED other records
   (group_ok, CS: ##META, ##PEDIGREE, ##SAMPLE, any ##key=<ID=..>; see c09_header_other_map_roundtrip
   for the conditions omap_ok on one map; the maps of one key have distinct IDs, a collection is
   not empty, keys are distinct). *)
Theorem c09_header_roundtrip : forall h ls,
  header_ok h -> write_header h = Some ls -> parse_header ls = Some h.
Proof. exact header_roundtrip. Qed.
Print Assumptions c09_header_roundtrip.

(* WAVE 8 -- STRUCTURED OTHER RECORDS.  One written line ##key=<idtag=id,k=v,...> is parsed back
   to the map, for every key: META (parse_meta: the strict key / value / separator loop; Number,
   Type and Values are written raw, Values=[..] is read up to the first ']'), PEDIGREE
   (parse_pedigree: the same loop; before 4.3 Child= / Derived= is the identifier and becomes the
   map's identifier tag, which the writer emits again) and any other key (is_map, then parse_other:
   the split_field loop).  omap_ok: the ID is raw-safe (no ',' '>', no leading quote); field keys
   are distinct, hold no '=' and are not ID; META: identifier tag ID, a raw Number / Type / Values
   is raw-safe -- Values may instead be '[' body ']' with no ']' in body (commas, '>' and quotes
   allowed; for every file format since 1f7dac7); PEDIGREE: identifier tag ID (before 4.3 also Child / Derived, and then no field
   is called Child / Derived); other keys: identifier tag ID, no field key starts with '>'. *)
Theorem c09_header_other_map_roundtrip : forall ff key m, omap_ok ff key m ->
  p_other_value ff key (60 :: join 44 (omap_fields (bytes_eqb key k_META) m) ++ [62]) = Some (OVMap m).
Proof. exact p_other_value_map. Qed.
Print Assumptions c09_header_other_map_roundtrip.

(* non-vacuity: a 4.3 header with a META map (raw Type / Number, a Values list with a comma, a
   quoted field with a quote inside), an unstructured line, two PEDIGREE maps and a SAMPLE map is
   inside header_ok and is written (7 lines) and parsed back *)
Theorem c09_header_structured_witness :
  header_ok (x_meta (4, 3)) /\
  exists ls, write_header (x_meta (4, 3)) = Some ls /\ parse_header ls = Some (x_meta (4, 3)) /\ length ls = 7%nat.
Proof. split; [exact x_meta_ok|exact witness_structured_roundtrip]. Qed.
Print Assumptions c09_header_structured_witness.

(* FORMER DEFECT header-meta-values-list-before-4.3-unparsable (repaired in 1f7dac7: parse_meta
   reads the Values list for every file format; before, the 4.2 text came back as a different
   header or not at all): the SAME header value under VCF 4.2 is inside header_ok (vals_ok is asked
   of META Values whatever the file format), is written with the same lines as under 4.3, and is
   parsed back *)
Theorem c09_header_meta_values_before_43_roundtrip :
  header_ok (x_meta (4, 2)) /\
  exists ls, write_header (x_meta (4, 2)) = Some ls /\ parse_header ls = Some (x_meta (4, 2)) /\
    (exists ls', write_header (x_meta (4, 3)) = Some ls' /\ tl ls' = tl ls).
Proof. split; [exact x_meta_ok_42|exact witness_meta_values_before_43]. Qed.
Print Assumptions c09_header_meta_values_before_43_roundtrip.

(* WAVE 8 -- header_framed IS A CONDITION ON THE HEADER VALUE.  For a header the writer accepts,
   "no written line holds an LF or ends with CR" is EQUIVALENT to hdr_vals_framed: no LF in any
   byte string the writer copies into a line (IDs, Description, md5, URL, other-field keys and
   values, keys and values of other records, identifier tags, sample names) and no CR at the end of
   an unstructured value or of the last sample name (map lines end with '>') *)
Theorem c09_header_framed_values : forall hd ls, write_header hd = Some ls ->
  (header_framed hd <-> hdr_vals_framed hd).
Proof. exact header_framed_iff_vals. Qed.
Print Assumptions c09_header_framed_values.

(* ... hence the FILE theorem of the FORMER reader model (switch off) with every premise on values;
   the switch-on statement is c09_file_roundtrip above *)
Theorem c09_file_roundtrip_values :
  forall fmt_float prs_float (FOK : N -> Prop),
  (forall b, FOK b -> prs_float (fmt_float b) = Some b) ->
  (forall b x, FOK b -> In x (fmt_float b) -> x <> 44 /\ x <> 9 /\ x <> 10 /\ x <> 59 /\ x <> 58) ->
  (forall b, FOK b -> fmt_float b <> dot) ->
  (forall b, FOK b -> fmt_float b <> []) ->
  (forall b x, FOK b -> In x (fmt_float b) -> x <> 13) ->
  forall valid hd rs text,
  header_ok hd -> hdr_defs_ok hd = true -> hdr_vals_framed hd ->
  Forall (rec_ok fmt_float FOK (hctx_of_header hd)) rs -> first_chrom_ok rs ->
  (forall s, (forall b, In b s -> In b text) -> valid s = true) ->
  write_file fmt_float hd rs = Some text ->
  read_file_eager prs_float valid text = Some (hd, (map (canon (hctx_of_header hd)) rs, true)) /\
  read_file_lazy prs_float valid text =
    Some (hd, (map (fun r => Some (canon (hctx_of_header hd) r)) rs, true)).
Proof. exact file_roundtrip_vals. Qed.
Print Assumptions c09_file_roundtrip_values.

(* ... and with the crate's OWN UTF-8 check (core::str::from_utf8 = NV.Fasta.Fastq.utf8_valid, what the
   correspondence check runs) in place of the parameter [valid], for a written file of ASCII bytes *)
Theorem c09_file_roundtrip_ascii_std :
  forall fmt_float prs_float (FOK : N -> Prop),
  (forall b, FOK b -> prs_float (fmt_float b) = Some b) ->
  (forall b x, FOK b -> In x (fmt_float b) -> x <> 44 /\ x <> 9 /\ x <> 10 /\ x <> 59 /\ x <> 58) ->
  (forall b, FOK b -> fmt_float b <> dot) ->
  (forall b, FOK b -> fmt_float b <> []) ->
  (forall b x, FOK b -> In x (fmt_float b) -> x <> 13) ->
  forall hd rs text,
  header_ok hd -> hdr_defs_ok hd = true -> hdr_vals_framed hd ->
  Forall (rec_ok fmt_float FOK (hctx_of_header hd)) rs ->
  write_file fmt_float hd rs = Some text ->
  (forall b, In b text -> b < 128) ->
  read_file_eager_cur_std prs_float text = Some (hd, (map (canon (hctx_of_header hd)) rs, true)) /\
  read_file_lazy_cur_std prs_float text =
    Some (hd, (map (fun r => Some (canon (hctx_of_header hd) r)) rs, true)).
Proof. exact file_roundtrip_ascii_std. Qed.
Print Assumptions c09_file_roundtrip_ascii_std.

(* WAVE 8 -- THE READER-SIDE REPAIR of file-first-record-chrom-hash-read-as-header-line (ae9f807), as
   a model switch (NV.Vcf.FileStop.header_stops_at_chrom_line, now true): read_header stops after
   the line the parser takes for the #CHROM line (never the first line), so the next line is a
   record even when it starts with '#'.  The parameterised readers with the switch OFF are the
   former model; the readers of the crate (_cur) are the parameterised ones with the switch ON;
   with it on, the file round trip needs NO condition on the first CHROM, and the former failing
   file is read back. *)
Theorem c09_header_stop_switch_off : forall prs valid text,
  read_file_eager_sw prs false valid text = read_file_eager prs valid text /\
  read_file_lazy_sw prs false valid text = read_file_lazy prs valid text.
Proof.
  intros prs valid text. split; [apply read_file_eager_sw_false|apply read_file_lazy_sw_false].
Qed.
Print Assumptions c09_header_stop_switch_off.

(* the same switch on a header given as lines (what the hw / hp kinds of the correspondence check
   run: read_header_chk_cur) *)
Theorem c09_header_lines_stop_switch_off : forall lines,
  read_header_chk_sw false lines = read_header_chk lines.
Proof. exact read_header_chk_sw_false. Qed.
Print Assumptions c09_header_lines_stop_switch_off.

Theorem c09_header_stop_switch_on : forall prs valid text,
  read_file_eager_cur prs valid text = read_file_eager_sw prs true valid text /\
  read_file_lazy_cur prs valid text = read_file_lazy_sw prs true valid text.
Proof. exact read_file_cur_is_stop. Qed.
Print Assumptions c09_header_stop_switch_on.

Theorem c09_file_roundtrip_stop :
  forall fmt_float prs_float (FOK : N -> Prop),
  (forall b, FOK b -> prs_float (fmt_float b) = Some b) ->
  (forall b x, FOK b -> In x (fmt_float b) -> x <> 44 /\ x <> 9 /\ x <> 10 /\ x <> 59 /\ x <> 58) ->
  (forall b, FOK b -> fmt_float b <> dot) ->
  (forall b, FOK b -> fmt_float b <> []) ->
  (forall b x, FOK b -> In x (fmt_float b) -> x <> 13) ->
  forall valid hd rs text,
  header_ok hd -> hdr_defs_ok hd = true -> hdr_vals_framed hd ->
  Forall (rec_ok fmt_float FOK (hctx_of_header hd)) rs ->
  (forall s, (forall b, In b s -> In b text) -> valid s = true) ->
  write_file fmt_float hd rs = Some text ->
  read_file_eager_sw prs_float true valid text = Some (hd, (map (canon (hctx_of_header hd)) rs, true)) /\
  read_file_lazy_sw prs_float true valid text =
    Some (hd, (map (fun r => Some (canon (hctx_of_header hd) r)) rs, true)).
Proof. exact file_roundtrip_stop_vals. Qed.
Print Assumptions c09_file_roundtrip_stop.

Theorem c09_file_first_chrom_hash_stop :
  exists hd rs text, write_file w_fmt hd rs = Some text /\
    (exists r tl, rs = [r] /\ r_chrom r = 35 :: tl) /\
    read_file_eager_sw w_prs false (fun _ => true) text = None /\
    read_file_eager_sw w_prs true (fun _ => true) text = Some (hd, (map (canon (hctx_of_header hd)) rs, true)) /\
    read_file_lazy_sw w_prs true (fun _ => true) text =
      Some (hd, (map (fun r => Some (canon (hctx_of_header hd) r)) rs, true)).
Proof.
  pose proof witness_first_chrom_hash_stop as W. cbv zeta in W. destruct W as (text & A & B & _ & C & D).
  exists (x_hdr (4, 3)), [x_rec [35; 99]], text. split; [exact A|]. split; [eexists; eexists; split; reflexivity|].
  split; [exact B|]. split; [exact C|exact D].
Qed.
Print Assumptions c09_file_first_chrom_hash_stop.

(* Lazy = eager: the span-relevant fields (INFO END, INFO SVLEN, FORMAT LEN) written and read back
   by the lazy and by the eager reader give the same variant_end and variant_span, equal to those
   of the written record, under every file format (v45 = VCF >= 4.5) *)
Theorem c09_lazy_eq_eager : forall fmt_float prs_float v45 r, span_ok r ->
  match reread fmt_float prs_float true r, reread fmt_float prs_float false r with
  | VOk rl, VOk re =>
      variant_end v45 rl = variant_end v45 re /\ variant_span v45 rl = variant_span v45 re /\
      variant_end v45 re = variant_end v45 r /\ variant_span v45 re = variant_span v45 r
  | _, _ => False
  end.
Proof. exact span_lazy_eq_eager. Qed.
Print Assumptions c09_lazy_eq_eager.

(* neither variant_end nor variant_span panics, whatever the record (also outside span_ok); a
   record whose end lies before its start (INFO END < POS) is an InvalidData error in every view,
   so c09_lazy_eq_eager covers it as "both Err" *)
Theorem c09_span_no_panic : forall v45 r,
  variant_end v45 r <> Panic /\ variant_span v45 r <> Panic /\
  (forall e, variant_end v45 r = Ok e -> e < start_of r -> variant_span v45 r = Err InvalidData).
Proof. exact variant_span_no_panic. Qed.
Print Assumptions c09_span_no_panic.

(* ... and on values: whatever the writer emits for a value is read identically by both readers *)
Theorem c09_lazy_eq_eager_values :
  forall fmt_float prs_float (FOK : N -> Prop),
  (forall b, FOK b -> prs_float (fmt_float b) = Some b) ->
  (forall b x, FOK b -> In x (fmt_float b) -> x <> 44 /\ x <> 9 /\ x <> 10 /\ x <> 59 /\ x <> 58) ->
  (forall b, FOK b -> fmt_float b <> dot) ->
  (forall b, FOK b -> fmt_float b <> []) ->
  forall c v44 num ty v t,
  val_ok FOK v -> typed num ty v -> v <> VFlag ->
  write_value fmt_float c v44 v = Some t ->
  parse_value prs_float true num ty t = parse_value prs_float false num ty t.
Proof. exact value_lazy_eq_eager. Qed.
Print Assumptions c09_lazy_eq_eager_values.

(* Formerly refuted classes, now positive (repaired in the implementation; a recurrence is a new
   failure): every ASCII Character, also of the writers' escape sets, comes back through the eager
   and the lazy reader; a sample without values is written "." and read back as such *)
Theorem c09_char_reserved_roundtrip : forall prs c lazy ch, ch < 128 ->
  parse_value prs lazy (NCount 1) TCharacter (write_char c ch) = Some (VCharacter ch).
Proof. exact char_roundtrip. Qed.
Print Assumptions c09_char_reserved_roundtrip.

Theorem c09_empty_sample_roundtrip : forall fmt prs v44 ds,
  write_sample fmt v44 [] = Some dot /\
  parse_sample_eager prs ds dot = Some [] /\ parse_sample_lazy prs ds dot = Some [].
Proof. exact empty_sample_roundtrip. Qed.
Print Assumptions c09_empty_sample_roundtrip.

(* non-vacuity of rec_ok / write_line: a record with every column populated *)
Example c09_example_line :
  let h := {| h_v44 := false; h_infos := [([68; 80], (NCount 1, TInteger))];
              h_formats := [([68; 80], (NCount 1, TInteger))]; h_nsamples := 1 |} in
  let r := {| r_chrom := [99]; r_pos := 5; r_ids := [[114; 115]]; r_ref := [65; 82]; r_alts := [[67]];
              r_qual := None; r_filters := [s_pass]; r_info := [([68; 80], Some (VInteger 7%Z))];
              r_keys := [key_gt; [68; 80]];
              r_samples := [[Some (VGenotype [(Some 0, false); (Some 1, false)]); Some (VInteger 3%Z)]] |} in
  write_line w_fmt h r =
    Some [99; 9; 53; 9; 114; 115; 9; 65; 65; 9; 67; 9; 46; 9; 80; 65; 83; 83; 9; 68; 80; 61; 55; 9;
          71; 84; 58; 68; 80; 9; 48; 47; 49; 58; 51] /\
  read_eager w_prs h [99; 9; 53; 9; 114; 115; 9; 65; 65; 9; 67; 9; 46; 9; 80; 65; 83; 83; 9; 68; 80; 61; 55; 9;
                      71; 84; 58; 68; 80; 9; 48; 47; 49; 58; 51] = Some (canon h r) /\
  r_ref (canon h r) = [65; 65].
Proof. vm_compute. repeat split. Qed.

(* non-vacuity *)
Example c09_example_string :
  write_string CInfo [97; 59; 98; 61; 37] = [97; 37; 51; 66; 98; 37; 51; 68; 37; 50; 53] /\
  write_string CFormat dot = [37; 50; 69] /\
  pct_dec (write_string CInfo [97; 59; 98; 61; 37]) = [97; 59; 98; 61; 37] /\
  write_char CInfo 59 = [37; 51; 66] /\ parse_char (write_char CInfo 59) = Some 59.
Proof. vm_compute. repeat split. Qed.

Example c09_example_genotype :
  gt_ok [(Some 0, false); (None, true); (Some 12, false)] /\
  write_genotype false [(Some 0, false); (None, true); (Some 12, false)] = [48; 124; 46; 47; 49; 50] /\
  write_genotype true [(Some 0, false); (None, true); (Some 12, false)] = [47; 48; 124; 46; 47; 49; 50].
Proof. split; [split; [discriminate|repeat constructor; cbn; try exact I; vm_compute; discriminate]|vm_compute; split; reflexivity]. Qed.

Example c09_example_span :
  let r := {| si_pos := 100; si_reflen := 4; si_end := Some (Some (VInteger 250%Z));
              si_svlen := Some (Some (VIntArr [Some 500%Z; None])); si_len := Some [Some (VInteger 30%Z); None] |} in
  span_ok r /\ variant_end false r = Ok 250 /\ variant_span false r = Ok 151 /\
  variant_end true r = Ok 599 /\ variant_span true r = Ok 500.
Proof.
  cbv zeta. split; [|vm_compute; repeat split].
  repeat split.
  - exists 250%Z. split; [reflexivity|unfold i32_ok; split; reflexivity || discriminate].
  - exists [Some 500%Z; None]. split; [reflexivity|]. split; [split; discriminate|].
    intros z [H|[H|[]]]; inversion H. unfold i32_ok. split; reflexivity || discriminate.
  - cbn. constructor; [exists 30%Z; split; [reflexivity|unfold i32_ok; split; reflexivity || discriminate]|].
    constructor; [exact I|constructor].
Qed.

Example c09_example_end_before_pos :
  let r := {| si_pos := 7; si_reflen := 4; si_end := Some (Some (VInteger 3%Z)); si_svlen := None; si_len := None |} in
  span_ok r /\ variant_end false r = Ok 3 /\ variant_span false r = Err InvalidData /\
  variant_span true r = Ok 4.
Proof.
  cbv zeta. split; [|vm_compute; repeat split].
  repeat split. exists 3%Z. split; [reflexivity|unfold i32_ok; split; reflexivity || discriminate].
Qed.

(* WAVE 10 -- THE EAGER FILE LOOP, EVERY CALL KEPT (NV.Vcf.EagerLoop): read_record_buf called with ONE
   reused RecordBuf until Ok(0), going on after an Err (read_line has consumed the line whether or
   not it is UTF-8), as a function of the text alone -- for EVERY text, every UTF-8 predicate, every
   header context it is the record reader mapped over the lines of the text, and the lines are the
   unique split of the text at its LFs. *)
From NV Require Import Vcf.EagerLoop Vcf.EagerLoopProofs.

Theorem c09_eager_loop_is_map_over_lines : forall prs_float valid h text,
  eager_call_list prs_float valid h text = map (eager_line prs_float valid h) (lines_of text) /\
  concat (lines_of text) = text /\ lines_shape (lines_of text).
Proof.
  intros. split; [apply eager_calls_lines|]. split; [apply lines_of_concat|apply lines_of_shape].
Qed.
Print Assumptions c09_eager_loop_is_map_over_lines.

(* on a text given by its lines t1 LF .. tn LF tail: one result per line, the parser sees strip_cr t
   (one CR before the LF dropped), a last line without LF is parsed as it is *)
Theorem c09_eager_loop_framed : forall prs_float valid h (ts : list (list N)) (tail : list N),
  Forall (fun t => ~ In 10%N t) ts -> ~ In 10%N tail ->
  eager_call_list prs_float valid h (with_lf ts ++ tail) =
  map (fun t => if valid (t ++ [10%N]) then read_eager prs_float h (strip_cr t) else None) ts
  ++ match tail with
     | [] => []
     | _ => [if valid tail then read_eager prs_float h tail else None]
     end.
Proof. exact eager_calls_framed. Qed.
Print Assumptions c09_eager_loop_framed.

(* the loop of the file theorems (NV.Vcf.File.eager_records: stop at the first Err) is the call list
   cut before its first Err *)
Theorem c09_eager_file_is_loop_prefix : forall prs_float valid h text,
  eager_records prs_float valid h text = until_err (eager_call_list prs_float valid h text).
Proof. exact eager_file_until_err. Qed.
Print Assumptions c09_eager_file_is_loop_prefix.

(* ---------------------------------------------------------------------------------------- *)
(* wave 10c: THE LAZY FILE LOOP WITH EVERY CALL KEPT (NV.Vcf.LazyLoop.lazy_call_list: read_record
   into ONE lazy Record until Ok(0), going on after Err; rdx_record = LazyRec.rd_record that also
   keeps where a failed call leaves the reader) *)
From NV Require Vcf.LazyLoop Vcf.LazyLoopProofs.

(* the new reader program is the one of the earlier lazy theorems, plus the position after Err *)
Theorem c09_lazy_loop_reader_is_rd_record : forall valid src,
  NV.Vcf.LazyLoop.forget_x (NV.Vcf.LazyLoop.rdx_record valid src) = NV.Vcf.LazyRec.rd_record valid src.
Proof. exact NV.Vcf.LazyLoopProofs.forget_x_record. Qed.
Print Assumptions c09_lazy_loop_reader_is_rd_record.

(* the lazy and the eager loop frame a text of LF-terminated lines (whose byte strings pass the
   UTF-8 check) into the SAME lines: one call per line t LF; the lazy call consumes exactly that
   line -- also when it fails ("unexpected EOL" is returned behind the LF) -- and yields
   Line.read_lazy of strip_cr t, never a panic; the eager call yields Line.read_eager of the same
   strip_cr t (on written lines the two agree by c09_record_text_roundtrip / c09_file_roundtrip) *)
Theorem c09_lazy_eager_loops_same_lines_partial : forall prs_float valid h (ts : list (list N)),
  Forall (fun t => ~ In 10%N t) ts ->
  (forall s, (forall b, In b s -> In b (with_lf ts)) -> valid s = true) ->
  Forall2 (NV.Vcf.LazyLoopProofs.call_on_line prs_float h)
          (NV.Vcf.LazyLoop.lazy_call_list prs_float valid h (with_lf ts)) ts /\
  eager_call_list prs_float valid h (with_lf ts) = map (fun t => read_eager prs_float h (strip_cr t)) ts.
Proof.
  intros prs_float valid h ts Hts Hval. split.
  - apply NV.Vcf.LazyLoopProofs.lazy_call_list_with_lf; assumption.
  - pose proof (eager_calls_framed prs_float valid h ts [] Hts (fun x => x)) as E.
    rewrite !app_nil_r in E. rewrite E. apply map_ext_in. intros t Ht.
    rewrite Hval; [reflexivity|]. intros b Hb. unfold with_lf.
    apply in_concat. exists (t ++ [10%N]). split; [|exact Hb].
    apply in_map_iff. exists t. split; [reflexivity|exact Ht].
Qed.
Print Assumptions c09_lazy_eager_loops_same_lines_partial.

(* the same about the readers of the crate (valid = core::str::from_utf8) for ASCII texts *)
Theorem c09_lazy_eager_loops_same_lines_ascii_std : forall prs_float h (ts : list (list N)),
  Forall (fun t => ~ In 10%N t) ts ->
  (forall b, In b (with_lf ts) -> (b < 128)%N) ->
  Forall2 (NV.Vcf.LazyLoopProofs.call_on_line prs_float h)
          (NV.Vcf.LazyLoop.lazy_call_list_std prs_float h (with_lf ts)) ts /\
  eager_call_list_std prs_float h (with_lf ts) = map (fun t => read_eager prs_float h (strip_cr t)) ts.
Proof.
  intros prs_float h ts Hts Hascii.
  apply (c09_lazy_eager_loops_same_lines_partial prs_float NV.Fasta.Fastq.utf8_valid h ts Hts).
  intros s Hs. apply NV.Vcf.FileValsProofs.utf8_valid_of_ascii. intros b Hb. apply Hascii, Hs, Hb.
Qed.
Print Assumptions c09_lazy_eager_loops_same_lines_ascii_std.

(* NOT proved: a last line without LF (the lazy reader pads the missing columns with empty fields
   and returns Ok where the eager reader fails), and texts with byte strings that are not UTF-8,
   where the statement is FALSE: a lazy call that fails inside a line leaves the reader behind the
   failed FIELD, the eager one behind the LINE *)
Definition c09_lazy_loop_lines_full_statement : Prop :=
  forall prs_float h (text : list N),
  (forall s, (forall b, In b s -> In b text) -> NV.Fasta.Fastq.utf8_valid s = true) ->
  let calls := NV.Vcf.LazyLoop.lazy_call_list_std prs_float h text in
  List.length calls = List.length (lines_of text) /\
  forall i n f r, nth_error calls i = Some (NV.Vcf.LazyLoop.LCRec n f r) ->
    exists l, nth_error (lines_of text) i = Some l /\ n = List.length l.

Theorem c09_lazy_loop_resync_witness :
  NV.Vcf.LazyLoop.rdx_record NV.Fasta.Fastq.utf8_valid [255; 9; 98; 10]%N = NV.Vcf.LazyLoop.XErr [98; 10]%N /\
  line_bytes [255; 9; 98; 10]%N = [255; 9; 98; 10]%N.
Proof. exact NV.Vcf.LazyLoopProofs.lazy_loop_resync_witness. Qed.
Print Assumptions c09_lazy_loop_resync_witness.
