From Coq Require Extraction.
From Coq Require Import ExtrOcamlBasic.
From NV Require Import Base.Witness Async.Framing Bgzf.Vpos Bgzf.Gzi Bgzf.ReaderOps Async.Reader Async.PollSeek.
From NV Require Bgzf.Frame Bgzf.Writer Async.Writer Io.Source Io.ReadExact Io.Run Async.ReadExact.
From NV Require Async.Lines Async.WriteAll Async.BcfFraming Async.Tab.
From NV Require Async.CramFraming.
From NV Require Index.Layout Index.CsiLayout Async.IndexWrite.
From NV Require Async.IndexRead.
From NV Require Async.FastaRecords Async.FastaRecordsSync.
From NV Require Async.CsiRead.
From NV Require Async.HeaderReads.
From NV Require Async.CramHeaderContainer.
Extraction "model.ml" nv_types_witness async_obs_case sync_obs_case
  async_reader_xcase sync_reader_xcase pack vcomp vuncomp NV.Async.Writer.async_writer_case
  NV.Async.ReadExact.async_bam_case NV.Async.ReadExact.sync_bam_case
  NV.Async.Lines.async_gff_case NV.Async.Lines.sync_gff_case
  NV.Async.Lines.async_fastq_case NV.Async.Lines.sync_fastq_case
  NV.Async.Lines.async_fasta_seq_case NV.Async.Lines.sync_fasta_seq_case
  NV.Async.Lines.async_header_case NV.Async.Lines.sync_header_case
  NV.Async.WriteAll.async_write_case
  NV.Async.BcfFraming.async_bcf_case NV.Async.BcfFraming.sync_bcf_case
  NV.Async.Tab.async_sam_view_case NV.Async.Tab.sync_sam_view_case
  NV.Async.Tab.async_vcf_view_case NV.Async.Tab.sync_vcf_view_case
  NV.Async.CramFraming.async_cram_case NV.Async.CramFraming.sync_cram_case
  NV.Async.IndexWrite.idxw_gzi_case NV.Async.IndexWrite.idxw_bai_case
  NV.Async.IndexWrite.idxw_csi_case NV.Async.IndexWrite.idxw_tbi_case
  NV.Async.IndexRead.async_gzi_case NV.Async.IndexRead.sync_gzi_case
  NV.Async.IndexRead.async_bai_case NV.Async.IndexRead.sync_bai_case
  NV.Async.FastaRecords.async_fasta_records_case NV.Async.FastaRecords.sync_fasta_records_case
  NV.Async.FastaRecords.closed_fasta_records_case NV.Async.FastaRecordsSync.sync_fasta_records_run
  NV.Async.CsiRead.async_csi_case NV.Async.CsiRead.sync_csi_case
  NV.Async.CsiRead.async_tbi_case NV.Async.CsiRead.sync_tbi_case
  NV.Async.HeaderReads.async_header_reads_case
  NV.Async.CramHeaderContainer.async_hc_case NV.Async.CramHeaderContainer.sync_hc_case.
