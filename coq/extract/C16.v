From Coq Require Extraction.
From Coq Require Import ExtrOcamlBasic.
From NV Require Import Base.Witness Async.Framing.
Extraction "model.ml" nv_types_witness async_obs_case sync_obs_case.
