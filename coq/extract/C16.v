From Coq Require Extraction.
From Coq Require Import ExtrOcamlBasic.
From NV Require Import Base.Witness Async.Framing Bgzf.Vpos Bgzf.Gzi Bgzf.ReaderOps Async.Reader.
Extraction "model.ml" nv_types_witness async_obs_case sync_obs_case
  async_reader_case sync_reader_case pack vcomp vuncomp.
