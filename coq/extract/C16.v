From Coq Require Extraction.
From Coq Require Import ExtrOcamlBasic.
From NV Require Import Base.Witness Async.Framing Bgzf.Vpos Bgzf.Gzi Bgzf.ReaderOps Async.Reader.
From NV Require Bgzf.Frame Bgzf.Writer Async.Writer.
Extraction "model.ml" nv_types_witness async_obs_case sync_obs_case
  async_reader_case sync_reader_case pack vcomp vuncomp NV.Async.Writer.async_writer_case.
