From Coq Require Extraction.
From Coq Require Import ExtrOcamlBasic.
From NV Require Import Base.Witness Io.Source Async.ReadExact Util.Detect Util.Fill Util.AsyncFill Util.Dispatch Util.Convert Util.ConvertFile.
Extraction "model.ml" nv_types_witness build_a build_v detect_compression mk_inflated
  mkSource first_window build_src_a build_src_v
  mkASource polls_of async_window_case build_async_a build_async_v
  build_writer_a build_writer_v build_writer_path_a build_writer_path_v
  build_reader_kind_a build_reader_kind_v indexed_build_a indexed_build_v index_path
  finish_a finish_v vw_run vw_drop
  convert_sam_bam convert_bam_sam convert_sam_bam_file.
