From Coq Require Extraction.
From Coq Require Import ExtrOcamlBasic.
From NV Require Import Base.Witness Util.Detect.
Extraction "model.ml" nv_types_witness build_a build_v detect_compression mk_inflated.
