From Coq Require Extraction.
From Coq Require Import ExtrOcamlBasic.
From NV Require Import Base.Witness Io.Source Async.ReadExact Util.Detect Util.Fill Util.AsyncFill Util.Dispatch Util.Convert Util.ConvertFile.
From NV Require Import Util.ConvertFile2 Util.ConvertVariant Bcf.StringMap Vcf.Values Vcf.Line.
From NV Require Import Util.ConvertVariantHdr Util.ConvertVariantHdrRev.
From NV Require Bgzf.Inflate.
Extraction "model.ml" nv_types_witness build_a build_v detect_compression mk_inflated
  mkSource first_window build_src_a build_src_v
  mkASource polls_of async_window_case build_async_a build_async_v
  build_writer_a build_writer_v build_writer_path_a build_writer_path_v
  build_reader_kind_a build_reader_kind_v indexed_build_a indexed_build_v index_path
  finish_a finish_v vw_run vw_drop
  convert_sam_bam convert_bam_sam convert_sam_bam_file
  convert_sam_bam_bytes convert_bam_sam_file convert_sam_bam_bgzf_l0 convert_bam_sam_bgzf_l0
  bgzf_unwrap bgzf_block_sizes Bgzf.Inflate.inflate
  build_strings build_contigs convert_vcf_bcf convert_bcf_vcf convert_vcf_bcf_lines convert_bcf_vcf_blocks
  convert_vcf_bcf_hfile convert_bcf_vcf_hfile.
