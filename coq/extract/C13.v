From Coq Require Extraction.
From Coq Require Import ExtrOcamlBasic.
From NV Require Import Base.Witness Trunc.Stream Index.Layout.
Extraction "model.ml" nv_types_witness obs_bam obs_bcf obs_bgzf obs_bamz read_bai.
