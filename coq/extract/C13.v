From Coq Require Extraction.
From Coq Require Import ExtrOcamlBasic.
From NV Require Import Base.Witness Trunc.Stream Trunc.Cram Index.Layout Index.CsiLayout Index.TextIndex Trunc.IndexCut Trunc.Header Trunc.TextHeader Trunc.CramBlocks Trunc.CraiGz Trunc.GziKind Trunc.ProgCut.
Extraction "model.ml" nv_types_witness obs_bam obs_bcf obs_bgzf obs_bamz obs_bcf_eager obs_bcfz obs_textz read_bai read_gzi obs_cram32
  read_csi read_tbi read_fai read_crai obs_csiz obs_tbiz
  obs_bam_file obs_bcf_file obs_bam_filez obs_bcf_filez
  obs_sam_text obs_vcf_text obs_sam_textz obs_vcf_textz obs_cram_blocks
  crai_file_cuts gz_exact_b read_gzi_k read_bai_k.
