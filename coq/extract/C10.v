From Coq Require Extraction.
From Coq Require Import ExtrOcamlBasic.
From NV Require Import Base.Witness Bcf.Ints Bcf.Typed Bcf.Genotype Bcf.Strings Bcf.StringMap Bcf.Record Bcf.RecordTyped.
From NV Require Import Vcf.Values Vcf.Line Bcf.Bridge Bcf.Lazy.
From NV Require Vcf.Header Vcf.File Bcf.File Bcf.FileLazyDomain Bcf.FileBytes Bcf.FileBytesFmt.
Extraction "model.ml" nv_types_witness
  enc_info_int dec_info_int enc_info_ints dec_info_ints
  enc_info_float dec_info_float enc_info_floats dec_info_floats
  enc_info_string dec_info_string enc_info_missing
  enc_fmt_int dec_fmt_int enc_fmt_ints dec_fmt_ints
  enc_fmt_float dec_fmt_float enc_fmt_floats dec_fmt_floats
  enc_gt dec_gt classify enc_type read_type
  enc_info_char dec_info_char enc_info_chars dec_info_chars enc_info_strs dec_info_strs dec_info_str
  enc_fmt_chars dec_fmt_chars enc_fmt_char_arrays dec_fmt_char_arrays
  enc_fmt_strings dec_fmt_strings enc_fmt_str_arrays dec_fmt_str_arrays
  build_strings build_contigs get_index get_index_of no_clobber_from PASS
  enc_record enc_record_w enc_site enc_index enc_indices dec_index dec_indices dec_frame dec_head dec_record dec_fields split_typed dec_record_typed dec_flag
  bcf_write bcf_read bcf_read_into bcf_special content write_line read_eager_text
  lazy_read_hdr ik_of fk_of
  NV.Bcf.File.bcf_write_file NV.Bcf.File.bcf_read_file NV.Bcf.File.bcf_read_file_lazy NV.Bcf.File.read_prefix NV.Bcf.FileLazyDomain.file_class NV.Bcf.FileBytes.written_class NV.Bcf.FileBytesFmt.written_class_all
  NV.Vcf.Header.write_header NV.Vcf.File.with_lf.
