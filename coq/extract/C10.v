From Coq Require Extraction.
From Coq Require Import ExtrOcamlBasic.
From NV Require Import Base.Witness Bcf.Ints Bcf.Typed Bcf.Genotype.
Extraction "model.ml" nv_types_witness
  enc_info_int dec_info_int enc_info_ints dec_info_ints
  enc_info_float dec_info_float enc_info_floats dec_info_floats
  enc_info_string dec_info_string enc_info_missing
  enc_fmt_int dec_fmt_int enc_fmt_ints dec_fmt_ints
  enc_fmt_float dec_fmt_float enc_fmt_floats dec_fmt_floats
  enc_gt dec_gt classify enc_type read_type.
