From Coq Require Extraction.
From Coq Require Import ExtrOcamlBasic.
From NV Require Import Base.Witness Index.Bins Index.Chunks Index.ChunksAny Index.Layout Index.Indexer Index.CsiLoffset Index.CsiLayout Index.TextIndex Index.GziKinds.
Extraction "model.ml" nv_types_witness reg2bin reg2bins optimize_chunks merge_sorted add_chunk
  w_bai read_bai w_gzi read_gzi mkbai mkbref mkmeta build_ref query reread_loffs mkrec bins loffs
  w_csi read_csi w_tbi read_tbi w_fai read_fai w_crai read_crai read_gzi_k.
