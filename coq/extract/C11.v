From Coq Require Extraction.
From Coq Require Import ExtrOcamlBasic.
From NV Require Import Base.Witness Fasta.Layout Fasta.Indexer Fasta.Query.
Extraction "model.ml" nv_types_witness lines index_file index_and_query_many reader_query_gen write_record.
