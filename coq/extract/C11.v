From Coq Require Extraction.
From Coq Require Import ExtrOcamlBasic.
From NV Require Import Base.Witness Fasta.Layout Fasta.Indexer Fasta.Query Fasta.Reader Fasta.Fastq
                       Io.Source Fasta.Delivery Fasta.Bgzip Fasta.ViaFile Fasta.AsyncQuery Fasta.FastqGrammar
                       Fasta.BgzipGzi Fasta.BgzipBytes Fasta.BgzipFile Fasta.FastqIndexGrammar Fasta.QueryPos.
Extraction "model.ml" nv_types_witness lines index_file index_and_query_many reader_query_gen write_record
  read_file write_file write_qfile read_qfile index_qfile index_and_query_delivered naive_file
  index_bgzf index_and_query_bgzf via_file_many index_via_file index_and_async_query fq_accepts
  index_and_query_bgzf_any index_and_query_bgzf_file fqi_accepts
  index_and_query_delivered_pos index_and_query_pos_closed.
