From Coq Require Extraction.
From Coq Require Import ExtrOcamlBasic.
From NV Require Import Base.Witness Io.Source Io.ReadExact Io.BufReader Io.FastaScan Io.FastaIndex Io.Run.
Extraction "model.ml" nv_types_witness run_rx run_rxb bam_read_records bgzf_read read_until_all
  gff_lines seq_pieces run_read_sequence fidx_first_line src_left b_left
  run_index_file.
