From Coq Require Extraction.
From Coq Require Import ExtrOcamlBasic.
From NV Require Import Base.Witness Io.Source Io.ReadExact Io.BufReader Io.FastaScan Io.FastaIndex Io.FastqRead Io.HeaderRead Io.BgzfRead Io.BedRead Io.TabRead Io.Run Bgzf.Inflate Io.Prog Io.IndexProg Io.ProgCram Io.ProgRun Io.SeqRead Io.SeqRun Io.TabixProg Io.CsiBodyProg.
Extraction "model.ml" nv_types_witness run_rx run_rxb bam_read_records bgzf_read read_until_all
  gff_lines seq_pieces run_read_sequence fidx_first_line src_left b_left
  run_index_file run_fastq run_fastq_index run_header run_bgzf inflate run_bed_obs run_sam_view_obs run_vcf_view_obs run_read_lines run_gzi run_bai run_fai run_bcf run_cram run_csi_header run_hdr_reads run_hdr_read_to_end run_seq_reads run_seq_read_to_end run_tabix run_csi.
