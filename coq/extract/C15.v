From Coq Require Extraction.
From Coq Require Import ExtrOcamlBasic.
From NV Require Import Base.Witness Hostile.Panics Hostile.Fused CramRec.Features CramRec.Mates Hostile.MatesP Hostile.BamAcc.
Extraction "model.ml" nv_types_witness seek_then query rfreq data_as_ref gff_attr_run resolve_view series_rec read_record_view.
