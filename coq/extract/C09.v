From Coq Require Extraction.
From Coq Require Import ExtrOcamlBasic.
From NV Require Import Base.Witness Base.Percent Text.TextBase Vcf.Values Vcf.Span Vcf.Record Vcf.Line Vcf.Header Vcf.LazyRec Vcf.File Vcf.FileStop Vcf.EagerLoop Vcf.LazyLoop.
Extraction "model.ml" nv_types_witness write_info_field parse_info_field write_sample
  parse_sample_eager parse_sample_lazy variant_end variant_span reread
  write_line read_eager read_eager_into read_lazy read_lazy_text read_eager_text rec_end rec_span frame write_header parse_header read_header  lazy_records_std lf_obs write_file read_file_eager_std read_file_lazy_std read_file_eager_cur_std read_file_lazy_cur_std read_header_chk_cur header_stops_at_chrom_line hctx_of_header parse_header_chk read_header_chk eager_call_list_std lazy_call_list_std eager_line lines_of NV.Fasta.Fastq.utf8_valid.
