From Coq Require Extraction.
From Coq Require Import ExtrOcamlBasic.
From NV Require Import Base.Witness Sinks.Sink Sinks.Mt Sinks.Format Sinks.MtApp Sinks.IndexCalls Sinks.AsyncSink Sinks.IndexBgzf Sinks.CramCalls Sinks.FaiCalls.
Extraction "model.ml" nv_types_witness write_all sink_flush lw_run lw_out bw_run ideal_sink mt_model mt_nblocks fob_run cram_run mta_model mta_pol bai_write_index gzi_write_index as_write_all afq_run as_run csi_life tbi_life x_accepted c_csi c_tbi cramc_run cc_wf fai_write_index.
