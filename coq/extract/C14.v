From Coq Require Extraction.
From Coq Require Import ExtrOcamlBasic.
From NV Require Import Base.Witness Sinks.Sink Sinks.Mt Sinks.Format.
Extraction "model.ml" nv_types_witness write_all sink_flush lw_run lw_out bw_run ideal_sink mt_model mt_nblocks fob_run cram_run.
