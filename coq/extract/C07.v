From Coq Require Extraction.
From Coq Require Import ExtrOcamlBasic.
From NV Require Import Base.Witness CramRec.Features CramRec.Container CramRec.Mates CramRec.MatesBytes CramRec.SliceHeader CramRec.File CramRec.FileNames CramRec.FeaturesStop CramRec.SliceBlocks.
Extraction "model.ml" nv_types_witness roundtrip default_sm
  build_container mk_desc_block mkslice
  mates_roundtrip samrec_of mate_view mates_rt mates_links mates_bytes
  shdr_rows srec_of
  file_rt file_layout rec_cigar rec_bases mdist_rt file_rt_names file_name_blocks roundtrip_stop
  sb_count sb_ids sb_blocks sb_header_bytes sb_read_header.
