From Coq Require Extraction.
From Coq Require Import ExtrOcamlBasic.
From NV Require Import Base.Witness Base.LE Bgzf.Crc32 Bgzf.Frame Bgzf.Writer Bgzf.Reader Bgzf.Inflate Bgzf.InflateFixed Bgzf.InflateTokens Bgzf.InflateDynamic Bgzf.InflateSpec Bgzf.ReaderCalls.
Extraction "model.ml" nv_types_witness run_script reader_read_to_end eof_block crc32 inflate inflate_raw deflate_stored deflate_l0 deflate_fixed_lit frame_bytes deflate_fixed_tokens expand deflate_dynamic deflate_blocks stream_out rinit read_gen run_reads r_virtual_position.
