From Coq Require Extraction.
From Coq Require Import ExtrOcamlBasic.
From NV Require Import Base.Witness Bgzf.Vpos Bgzf.Gzi Bgzf.ReaderOps Bgzf.WriterTell.
Extraction "model.ml" nv_types_witness pack vcomp vuncomp vpos_try_from vpos_cmp gzi_query init run pinned_tree_repaired wtell_run.
