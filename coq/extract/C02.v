From Coq Require Extraction.
From Coq Require Import ExtrOcamlBasic.
From NV Require Import Base.Witness Bgzf.Vpos Bgzf.Gzi Bgzf.ReaderOps Bgzf.WriterTell Bgzf.GziBs Bgzf.SeekBytes Bgzf.WriterTellSink Bgzf.SeekBytesShift Bgzf.SeekBytesReloc Bgzf.SeekBytesShiftOps.
Extraction "model.ml" nv_types_witness pack vcomp vuncomp vpos_try_from vpos_cmp gzi_query init run pinned_tree_repaired wtell_run partition_point_bs gzi_query_bs run_bs hseek_run hread_run fwtell_run pinned_writer_repaired hrs_run hshift_run hreloc_run hshiftops_run.
