From Coq Require Extraction.
From Coq Require Import ExtrOcamlBasic.
From NV Require Import Base.Witness CramIdx.Crai CramIdx.Multi CramIdx.Transport CramIdx.Bytes CramIdx.AsyncQuery CramIdx.Gz CramIdx.ZeroSpan.
Extraction "model.ml" nv_types_witness written index index_core query_region mkrec
  index_m query_region_m query_unmapped wslice mkmcont bump_landmark single_file
  crai_text query_via_file query_unmapped_via_file index_of_bytes32
  async_queries32 async_query_unmapped32 sync_queries32 sync_query_unmapped32
  read_crai_gz gunzip gz_framed_as write_crai_gz_stored beqb buf_file query_region_buf index_real
  bufz_file query_region_bufz index_then_query.
