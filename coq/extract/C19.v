From Coq Require Extraction.
From Coq Require Import ExtrOcamlBasic.
From NV Require Import Base.Witness CramIdx.Crai.
Extraction "model.ml" nv_types_witness written index index_core query_region mkrec.
