From Coq Require Extraction.
From Coq Require Import ExtrOcamlBasic.
From NV Require Import Base.Witness Base.Decimal Sam.Fields Sam.Record Sam.Header Sam.BamHeader Sam.Lazy.
Extraction "model.ml" nv_types_witness write_record parse_line fmt_dec parse_dec write_header read_header write_bam_header read_bam_header lazy_view.
