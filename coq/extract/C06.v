From Coq Require Extraction.
From Coq Require Import ExtrOcamlBasic.
From NV Require Import Base.Witness Base.Decimal Sam.Fields Sam.Record Sam.Header Sam.BamHeader Sam.Lazy Sam.LazyData Sam.BamAgree Sam.File Sam.LazyGet.
From NV Require Bam.Record Bam.Encode.
Extraction "model.ml" nv_types_witness write_record parse_line fmt_dec parse_dec write_header read_header write_bam_header read_bam_header lazy_view lazy_read slice_from bound lazy_data lz_arr_elems lz_elem_i lazy_convert to_bam_d Bam.Encode.encode Sam.File.write_file Sam.File.read_file lazy_get header_write_read.
