From Coq Require Extraction.
From Coq Require Import ExtrOcamlBasic.
From NV Require Import Base.Witness Cram.Bytes Cram.Itf8 Cram.Ltf8 Cram.Vlq Cram.Rans4x8 Cram.Rans4x8O1 Cram.Nx16Xform Cram.Nx16O0 Cram.Nx16O1 Cram.Nx16Full Cram.Nx16Stripe Cram.Aac Cram.AacModes Cram.AacRle Cram.Fqz Cram.Names Cram.Cap Cram.Nx16Cap Cram.AacCap Cram.FqzCap Cram.NamesCap Cram.FqzQmap.
Extraction "model.ml" nv_types_witness write_itf8 read_itf8 write_ltf8 read_ltf8 write_uint7 read_uint7
  encode_o0 spec_decode encode_o1 nx_encode_byte nx_decode nx_encode_s_byte nx_decode_s aac_encode_byte aac_decode aac_encode_s_byte aac_decode_s aac_encode_r_byte aac_decode_r fqz_encode fqz_decode names_encode names_decode nx_decode_s_capped aac_decode_r_capped fqz_decode_capped names_decode_capped fqz_decode_qm.
