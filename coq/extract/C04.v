From Coq Require Extraction.
From Coq Require Import ExtrOcamlBasic.
From NV Require Import Base.Witness Index.Bins Index.Chunks Index.Indexer Index.QueryFast Index.AlignEnd
  Index.Formats Index.FormatsFast Vcf.Values Vcf.Span Index.FormatsVcf
  Bgzf.Vpos Bgzf.ReaderOps Index.ByteQuery Index.ByteIndex Index.ByteIndexLazy Index.ByteUnmapped
  Index.BcfByteQuery Index.BcfSiteKey.
Extraction "model.ml" nv_types_witness build_ref query_fast query_records scan_records mkrec
  bins lin loffs Linear Binned alignment_end
  mkbam bam_index bam_index_scan bam_query_fast bam_query_unmapped bam_chunk_read
  mkvcf vcf_index vcf_index_scan vcf_query_fast tabix_index tabix_index_scan tabix_query
  mkFrame byte_session_x byte_bam_session_x byte_bam_ops_session_x bcf_byte_session_x bcf_site_key.
