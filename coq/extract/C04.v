From Coq Require Extraction.
From Coq Require Import ExtrOcamlBasic.
From NV Require Import Base.Witness Index.Bins Index.Chunks Index.Indexer Index.QueryFast Index.AlignEnd.
Extraction "model.ml" nv_types_witness build_ref query_fast query_records scan_records mkrec
  bins lin loffs Linear Binned alignment_end.
