From Coq Require Extraction.
From Coq Require Import ExtrOcamlBasic.
From NV Require Import Base.Witness Index.Bins Bam.Record Bam.Encode Bam.Decode Bam.Lazy Bam.LazyErr Bam.Subseq Bam.SeqIter Bam.LazyRewrite Bam.File Bam.FileBgzf Bam.Reuse.
From NV Require Sam.Header.
Extraction "model.ml" nv_types_witness encode decode decode_record encode_base unpack_bases dec_op pack_bases sub_iter lazy_view_of lzp_seq_len lzp_seq_get lzp_data data_get lzp_cigar_len lazy_convert lzp_data_k data_get_k lazy_convert_k split_at_checked subseq_len subseq_is_empty subseq_get subseq_iter seq_iter_run validate lazy_rewrite file_of_text read_file read_file_lazy read_file_reused Sam.Header.write_header bgzf_file_l0 bgzf_read_l0.
