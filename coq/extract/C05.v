From Coq Require Extraction.
From Coq Require Import ExtrOcamlBasic.
From NV Require Import Base.Witness Index.Bins Bam.Record Bam.Encode Bam.Decode Bam.Lazy.
Extraction "model.ml" nv_types_witness encode decode decode_record encode_base unpack_bases dec_op pack_bases sub_iter lazy_view_of lzp_seq_len lzp_seq_get lzp_data data_get.
