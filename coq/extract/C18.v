From Coq Require Extraction.
From Coq Require Import ExtrOcamlBasic.
From NV Require Import Base.Witness Base.Percent Text.TextBase Text.Gff Text.Gtf Text.Bed Text.BedRec Text.BedTyped Text.BedRewrite Text.GffLine Text.GtfLine Text.GffDirValue Text.GffFile Text.GffAttrMap.
Extraction "model.ml" nv_types_witness pct_enc pct_dec gff_write gff_read owned_of_lazy gff_set_sweep
  gtf_write gtf_read gtf_owned bed_write
  bed_default bed_write_file bed_read_file bed_read_raw bed_view_of bed_owned
  gff_file_lines gff_file_line_bufs gff_record_bufs gff_write_directive gff_write_comment bed_write_typed
  gtf_file_lines gtf_file_line_bufs gtf_record_bufs gtf_write_comment
  parse_gff_version parse_sequence_region parse_genome_build directive_typed_readback gff_write_directive_r
  gff_write_file gtf_write_file gff_attr_views
  bed_rewrite_view bed_rewrite.
