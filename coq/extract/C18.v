From Coq Require Extraction.
From Coq Require Import ExtrOcamlBasic.
From NV Require Import Base.Witness Base.Percent Text.TextBase Text.Gff Text.Gtf Text.Bed.
Extraction "model.ml" nv_types_witness pct_enc pct_dec gff_write gff_read owned_of_lazy gff_set_sweep
  gtf_write gtf_read gtf_owned bed_write bed_read.
