From Coq Require Extraction.
From Coq Require Import ExtrOcamlBasic.
From NV Require Import Base.Witness Io.Sched Bgzf.MtWriter Bgzf.MtReader Bgzf.Vpos Bgzf.Gzi Bgzf.ReaderOps Bgzf.MtReaderOps Bgzf.MtReaderErr Bgzf.MtReaderBridge Sinks.Sink Sinks.Mt Sinks.MtApp Bgzf.MtWriterApi Bgzf.MtWriterBridge.
Extraction "model.ml" nv_types_witness c03_writer_model c03_st_writer_model stage c03_reader_model
  pack vcomp vuncomp c03_mt_reader_case c03_st_reader_case
  c03_mt_reader_err_case c03_st_reader_err_case
  c03_mt_reader_case_via_err c03_st_reader_case_via_err c03_writer_api_obs c03_writer_bridge_case.
