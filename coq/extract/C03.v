From Coq Require Extraction.
From Coq Require Import ExtrOcamlBasic.
From NV Require Import Base.Witness Io.Sched Bgzf.MtWriter Bgzf.MtReader.
Extraction "model.ml" nv_types_witness c03_writer_model c03_st_writer_model stage c03_reader_model.
